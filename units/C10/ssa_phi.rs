// ======================================================================================
// units/C10/ssa_phi.rs - phi placement: scalars_mutated_in_block(s), compute_non_local_scalars, insert_phi_nodes
// ======================================================================================

/// the scalars an instruction writes / reads as the transformation sees them: an intrinsic that does not declare
/// them counts as writing / reading none (`unwrap_or_default`)
pub open spec fn ins_writes(i: il::Instruction) -> Seq<il::Scalar> {
    match il::op_writes(i.operation) { Some(s) => s, None => Seq::<il::Scalar>::empty() }
}
pub open spec fn ins_reads(i: il::Instruction) -> Seq<il::Scalar> {
    match il::op_reads(i.operation) { Some(s) => s, None => Seq::<il::Scalar>::empty() }
}

/// `s` is written by one of the first `n` instructions of the block
pub open spec fn writes_before(b: il::Block, n: int, s: il::Scalar) -> bool {
    exists|j: int| 0 <= j < n && j < b.instructions@.len() && ins_writes(#[trigger] b.instructions@[j]).contains(s)
}

/// `s` is written by some instruction of the block
pub open spec fn block_writes(b: il::Block, s: il::Scalar) -> bool {
    writes_before(b, b.instructions@.len() as int, s)
}

//@ source lib/transformation/ssa_transformation.rs
//@ fn fn scalars_mutated_in_block loops=2
//@ rewrite 1 `block .instructions() .iter() .flat_map(|inst| inst.scalars_written().unwrap_or_default()) .collect()` => `{ let mut vf_out: HashSet<&il::Scalar> = HashSet::new(); for inst in vf_it: block.instructions().iter() { let vf_part = inst.scalars_written().unwrap_or_default(); for vf_s in vf_it2: vf_part { vf_out.insert(vf_s); } } vf_out }` ## R-flat-map-collect: `ITER.flat_map(|x| F).collect::<HashSet<_>>()` is by definition the set that receives, for every item x of ITER in order, all items of F; `inst.scalars_written().unwrap_or_default()` is the original F
//@ spec
    ensures
        /*@exact*/ forall|s: &il::Scalar| #![trigger r@.contains(s)] r@.contains(s) <==> block_writes(*block, *s),
//@ loop 0
    invariant
        vf_it.seq().len() == block.instructions@.len(),
        forall|j: int| 0 <= j < vf_it.seq().len() ==> *(#[trigger] vf_it.seq()[j]) == block.instructions@[j],
        forall|s: &il::Scalar| #![trigger vf_out@.contains(s)] vf_out@.contains(s) <==> writes_before(*block, vf_it.index@ as int, *s),
//@ before 0 `for vf_s in`
    let ghost vf_k = vf_it.index@ as int;
    let ghost vf_refs = vf_part@;
    proof {
        assert(*inst == block.instructions@[vf_k]);
        assert(il::refs_are(vf_refs, ins_writes(block.instructions@[vf_k])));
    }
//@ loop 1
    invariant
        vf_it2.seq() == vf_refs,
        0 <= vf_k < block.instructions@.len(),
        il::refs_are(vf_refs, ins_writes(block.instructions@[vf_k])),
        forall|s: &il::Scalar| #![trigger vf_out@.contains(s)] vf_out@.contains(s) <==>
            (writes_before(*block, vf_k, *s) || exists|j: int| 0 <= j < vf_it2.index@ && *(#[trigger] vf_refs[j]) == *s),
//@ after 0 `vf_out.insert(vf_s); }`
    proof {
        assert forall|s: &il::Scalar| #![trigger vf_out@.contains(s)] vf_out@.contains(s) <==> writes_before(*block, vf_k + 1, *s) by {
            let w = ins_writes(block.instructions@[vf_k]);
            if writes_before(*block, vf_k + 1, *s) && !writes_before(*block, vf_k, *s) {
                let j = choose|j: int| 0 <= j < vf_k + 1 && j < block.instructions@.len() && ins_writes(#[trigger] block.instructions@[j]).contains(*s);
                assert(j == vf_k);
                let i = choose|i: int| 0 <= i < w.len() && w[i] == *s;
                assert(*vf_refs[i] == *s);
            }
            if vf_out@.contains(s) && !writes_before(*block, vf_k, *s) {
                let j = choose|j: int| 0 <= j < vf_refs.len() && *(#[trigger] vf_refs[j]) == *s;
                assert(w[j] == *s);
                assert(ins_writes(block.instructions@[vf_k]).contains(*s));
            }
        }
    }
//@ end

/// block `k` of `cfg` holds an instruction that writes `s`
pub open spec fn mutated_at(cfg: il::ControlFlowGraph, s: il::Scalar, k: usize) -> bool {
    cfg.has_block(k) && block_writes(cfg.blocks_view()[k], s)
}

/// one of the first `n` listed blocks has index `k` and writes `s`
pub open spec fn mutated_in_prefix(bs: Seq<&il::Block>, n: int, s: il::Scalar, k: usize) -> bool {
    exists|i: int| 0 <= i < n && i < bs.len() && (#[trigger] bs[i]).index == k && block_writes(*bs[i], s)
}

pub open spec fn listed_before(refs: Seq<&&il::Scalar>, n: int, s: il::Scalar) -> bool {
    exists|j: int| 0 <= j < n && j < refs.len() && **(#[trigger] refs[j]) == s
}

/// the set `set` holds exactly the scalars block `b` writes and `refs` lists it: a scalar is listed iff the block writes it
pub proof fn lemma_listed_full(refs: Seq<&&il::Scalar>, set: Set<&il::Scalar>, b: il::Block)
    requires
        graph::seq_lists_set_ref(refs, set),
        forall|s: &il::Scalar| #![trigger set.contains(s)] set.contains(s) <==> block_writes(b, *s),
    ensures
        forall|s: il::Scalar| #![trigger block_writes(b, s)] listed_before(refs, refs.len() as int, s) <==> block_writes(b, s),
{
    graph::lemma_seq_lists_set_ref(refs, set);
    assert forall|s: il::Scalar| #![trigger block_writes(b, s)] listed_before(refs, refs.len() as int, s) <==> block_writes(b, s) by {
        if listed_before(refs, refs.len() as int, s) {
            let j = choose|j: int| 0 <= j < refs.len() && **(#[trigger] refs[j]) == s;
            assert(set.contains(*refs[j]));
        }
        if block_writes(b, s) {
            assert(set.contains(&s));
            let j = choose|j: int| 0 <= j < refs.len() && *(#[trigger] refs[j]) == &s;
            assert(**refs[j] == s);
        }
    }
}

/// a complete, duplicate-free listing of the blocks: "some listed block with index k writes s" is "block k of cfg writes s"
pub proof fn lemma_prefix_full(cfg: il::ControlFlowGraph, bs: Seq<&il::Block>, n: int)
    requires cfg.graph.lists_vertices(bs, |k: usize| true),
    ensures n == bs.len() ==> forall|s: il::Scalar, k: usize| #![trigger mutated_at(cfg, s, k)] mutated_in_prefix(bs, n, s, k) <==> mutated_at(cfg, s, k),
{
    if n != bs.len() { return; }
    assert forall|s: il::Scalar, k: usize| #![trigger mutated_at(cfg, s, k)] mutated_in_prefix(bs, bs.len() as int, s, k) <==> mutated_at(cfg, s, k) by {
        if mutated_in_prefix(bs, bs.len() as int, s, k) {
            let i = choose|i: int| 0 <= i < bs.len() && (#[trigger] bs[i]).index == k && block_writes(*bs[i], s);
            assert(cfg.graph.vertices@.contains_key(bs[i].index_spec()) && *bs[i] == cfg.graph.vertices@[bs[i].index_spec()]);
        }
        if mutated_at(cfg, s, k) {
            let ids = |k: usize| true;
            assert(ids(k) && cfg.graph.vertices@.contains_key(k));
            let i = choose|i: int| 0 <= i < bs.len() && (#[trigger] bs[i]).index_spec() == k;
            assert(*bs[i] == cfg.graph.vertices@[bs[i].index_spec()]);
        }
    }
}

/// the table `m` (scalar -> set of block indices) holds the pair (s, k).  A NAMED predicate on purpose: it is the trigger of
/// every quantified statement about the table (a trigger through `m[s]@.contains(k)` directly is not matched by Verus).
pub open spec fn records(m: Map<il::Scalar, HashSet<usize>>, s: il::Scalar, k: usize) -> bool {
    m.contains_key(s) && m[s]@.contains(k)
}

/// what the table under construction records: the pairs of the first `n` listed blocks, plus (cur, s) for the first `j` listed scalars
pub open spec fn table_is(m: Map<il::Scalar, HashSet<usize>>, bs: Seq<&il::Block>, n: int, cur: usize, refs: Seq<&&il::Scalar>, j: int) -> bool {
    forall|s: il::Scalar, k: usize| #![trigger records(m, s, k)] records(m, s, k) <==>
        (mutated_in_prefix(bs, n, s, k) || (k == cur && listed_before(refs, j, s)))
}

pub proof fn lemma_table_next_block(m: Map<il::Scalar, HashSet<usize>>, bs: Seq<&il::Block>, n: int, refs: Seq<&&il::Scalar>, j: int, set: Set<&il::Scalar>)
    requires
        0 <= n < bs.len(),
        graph::seq_lists_set_ref(refs, set),
        forall|s: &il::Scalar| #![trigger set.contains(s)] set.contains(s) <==> block_writes(*bs[n], *s),
        table_is(m, bs, n, bs[n].index, refs, j),
    ensures
        j == refs.len() ==> table_is(m, bs, n + 1, 0, Seq::<&&il::Scalar>::empty(), 0),
{
    if j != refs.len() { return; }
    lemma_listed_full(refs, set, *bs[n]);
    assert forall|s: il::Scalar, k: usize| #![trigger records(m, s, k)] records(m, s, k) <==> mutated_in_prefix(bs, n + 1, s, k) by {
        let lhs = records(m, s, k);
        let a = mutated_in_prefix(bs, n, s, k);
        let w = block_writes(*bs[n], s);
        assert(lhs <==> (a || (k == bs[n].index && listed_before(refs, j, s))));
        assert(listed_before(refs, refs.len() as int, s) <==> w);
        if a {
            let i = choose|i: int| 0 <= i < n && i < bs.len() && (#[trigger] bs[i]).index == k && block_writes(*bs[i], s);
            assert(0 <= i < n + 1 && i < bs.len() && bs[i].index == k && block_writes(*bs[i], s));
        }
        if k == bs[n].index && w {
            assert(0 <= n < n + 1 && n < bs.len() && bs[n].index == k && block_writes(*bs[n], s));
        }
        if mutated_in_prefix(bs, n + 1, s, k) {
            let i = choose|i: int| 0 <= i < n + 1 && i < bs.len() && (#[trigger] bs[i]).index == k && block_writes(*bs[i], s);
            if i < n { assert(a); } else { assert(i == n); }
        }
    }
}

//@ fn fn scalars_mutated_in_blocks loops=2
//@ rewrite 1 `let mut mutated_in = HashMap::new();` => `let mut mutated_in: HashMap<il::Scalar, HashSet<usize>> = HashMap::new();` ## R-type-annot: writes down the type rustc infers for the local (it is the function's return type); needed because the invariant mentions it before the first insert
//@ rewrite 1 `for block in cfg.blocks() {` => `for block in vf_it: cfg.blocks() {` ## R-ghost-iter-name: names the ghost iterator of the for loop so that invariants can mention it; no executable change
//@ rewrite 1 `for scalar in scalars_mutated_in_block(block) {` => `let vf_set = scalars_mutated_in_block(block); for vf_r in vf_it2: vf_set.iter() { let scalar: &il::Scalar = *vf_r;` ## R-iter-copy: by-value iteration over a HashSet of Copy items (`&il::Scalar`) that is not used afterwards = by-reference iteration copying each item (Verus has no model of hash_set::IntoIter)
//@ spec
    requires cfg.graph.graph_wf(),
    ensures
        /*@exact*/ forall|s: il::Scalar, k: usize| #![trigger records(r@, s, k)] records(r@, s, k) <==> mutated_at(*cfg, s, k),
//@ loop 0
    invariant
        cfg.graph.graph_wf(),
        cfg.graph.lists_vertices(vf_it.seq(), |k: usize| true),
        vf_it.seq().len() == cfg.graph.vertices@.dom().len(),
        table_is(mutated_in@, vf_it.seq(), vf_it.index@ as int, 0, Seq::<&&il::Scalar>::empty(), 0),
        vf_it.index@ == vf_it.seq().len() ==> (forall|s: il::Scalar, k: usize| #![trigger records(mutated_in@, s, k)] records(mutated_in@, s, k) <==> mutated_at(*cfg, s, k)),
//@ before 0 `for block in vf_it`
    proof {
        if cfg.graph.vertices@.dom().len() == 0 {
            assert(cfg.graph.vertices@.dom().finite());
            assert forall|k: usize| !cfg.graph.vertices@.contains_key(k) by { if cfg.graph.vertices@.dom().contains(k) { vstd::set_lib::lemma_set_empty_equivalency_len(cfg.graph.vertices@.dom()); } }
        }
    }
//@ before 0 `for vf_r in`
    let ghost vf_k = vf_it.index@ as int;
    let ghost vf_bs = vf_it.seq();
    proof {
        assert(*block == *vf_bs[vf_k]);
        if vf_set@.len() == 0 {
            assert forall|s: &il::Scalar| !vf_set@.contains(s) by { if vf_set@.contains(s) { vstd::set_lib::lemma_set_empty_equivalency_len(vf_set@); } }
            lemma_table_next_block(mutated_in@, vf_bs, vf_k, Seq::<&&il::Scalar>::empty(), 0, vf_set@);
        }
    }
//@ loop 1
    invariant
        0 <= vf_k < vf_bs.len(),
        *block == *vf_bs[vf_k],
        forall|s: &il::Scalar| #![trigger vf_set@.contains(s)] vf_set@.contains(s) <==> block_writes(*vf_bs[vf_k], *s),
        graph::seq_lists_set_ref(vf_it2.seq(), vf_set@),
        table_is(mutated_in@, vf_bs, vf_k, block.index, vf_it2.seq(), vf_it2.index@ as int),
        vf_it2.index@ == vf_it2.seq().len() ==> table_is(mutated_in@, vf_bs, vf_k + 1, 0, Seq::<&&il::Scalar>::empty(), 0),
//@ before 0 `if !mutated_in.contains_key(scalar)`
    let ghost vf_m0 = mutated_in@;
    let ghost vf_j = vf_it2.index@ as int;
    proof { assert(**vf_it2.seq()[vf_j] == *scalar); }
//@ before 0 `mutated_in.get_mut(scalar).unwrap().insert(block.index());`
    let ghost vf_m1 = mutated_in@;
    proof {
        assert(vf_m1.contains_key(*scalar));
        assert forall|s: il::Scalar, k: usize| #![trigger records(vf_m1, s, k)] records(vf_m1, s, k) <==> records(vf_m0, s, k) by {
            if s != *scalar && vf_m0.contains_key(s) { assert(vf_m1[s] == vf_m0[s]); }
        }
    }
//@ after 0 `mutated_in.get_mut(scalar).unwrap().insert(block.index());`
    proof {
        let cur = block.index;
        assert forall|s: il::Scalar, k: usize| #![trigger records(mutated_in@, s, k)] records(mutated_in@, s, k) <==>
            (mutated_in_prefix(vf_bs, vf_k, s, k) || (k == cur && listed_before(vf_it2.seq(), vf_j + 1, s))) by {
            assert(records(vf_m0, s, k) <==> (mutated_in_prefix(vf_bs, vf_k, s, k) || (k == cur && listed_before(vf_it2.seq(), vf_j, s))));
            assert(records(vf_m1, s, k) <==> records(vf_m0, s, k));
            if s == *scalar {
                assert(records(mutated_in@, s, k) <==> (records(vf_m1, s, k) || k == cur));
                assert(0 <= vf_j < vf_j + 1 && vf_j < vf_it2.seq().len() && **vf_it2.seq()[vf_j] == s);
                assert(listed_before(vf_it2.seq(), vf_j + 1, s));
            } else {
                assert(mutated_in@.contains_key(s) == vf_m1.contains_key(s));
                if vf_m1.contains_key(s) { assert(mutated_in@[s] == vf_m1[s]); }
                assert(records(mutated_in@, s, k) <==> records(vf_m1, s, k));
                if listed_before(vf_it2.seq(), vf_j + 1, s) {
                    let j = choose|j: int| 0 <= j < vf_j + 1 && j < vf_it2.seq().len() && **(#[trigger] vf_it2.seq()[j]) == s;
                    assert(j != vf_j);
                    assert(0 <= j < vf_j && j < vf_it2.seq().len() && **vf_it2.seq()[j] == s);
                }
                if listed_before(vf_it2.seq(), vf_j, s) {
                    let j = choose|j: int| 0 <= j < vf_j && j < vf_it2.seq().len() && **(#[trigger] vf_it2.seq()[j]) == s;
                    assert(0 <= j < vf_j + 1 && j < vf_it2.seq().len() && **vf_it2.seq()[j] == s);
                }
            }
        }
        lemma_table_next_block(mutated_in@, vf_bs, vf_k, vf_it2.seq(), vf_j + 1, vf_set@);
    }
//@ after 0 `mutated_in.get_mut(scalar).unwrap().insert(block.index()); }`
    proof {
        lemma_prefix_full(*cfg, vf_bs, vf_k + 1);
    }
//@ end

// ---------------------------------------------------------------------------------------------
// compute_non_local_scalars

/// position `i` of block `b` reads `s` and no earlier instruction of the block writes it (an upward-exposed read)
pub open spec fn exposed_at(b: il::Block, i: int, s: il::Scalar) -> bool {
    0 <= i < b.instructions@.len() && ins_reads(b.instructions@[i]).contains(s) && !writes_before(b, i, s)
}

/// one of the first `n` positions of `b` holds an upward-exposed read of `s`
pub open spec fn exposed_before(b: il::Block, n: int, s: il::Scalar) -> bool {
    exists|i: int| 0 <= i < n && #[trigger] exposed_at(b, i, s)
}

/// the guard of the edge reads `s`
pub open spec fn edge_reads(e: il::Edge, s: il::Scalar) -> bool {
    e.condition matches Some(c) && il::expr_scalars(c).contains(s)
}

/// `cfg` has an edge h -> t whose guard reads `s`
pub open spec fn guard_reads(cfg: il::ControlFlowGraph, h: usize, t: usize, s: il::Scalar) -> bool {
    cfg.has_edge(h, t) && edge_reads(cfg.edges_view()[(h, t)], s)
}

/// `s` is live on entry of ... or at the end of block `b`: read in `b` before any definition in `b`, or read by the guard of
/// an edge leaving `b` (guards are evaluated after the block's instructions) while `b` does not define it
pub open spec fn nl_block(cfg: il::ControlFlowGraph, b: il::Block, s: il::Scalar) -> bool {
    exposed_before(b, b.instructions@.len() as int, s)
    || (!block_writes(b, s) && exists|t: usize| #[trigger] guard_reads(cfg, b.index, t, s))
}

/// THE SPECIFICATION of compute_non_local_scalars (from the property: a use must name a reaching version, so every
/// scalar that is used where no definition of the same block reaches needs phi nodes at the joins)
pub open spec fn non_local(cfg: il::ControlFlowGraph, s: il::Scalar) -> bool {
    exists|k: usize| cfg.has_block(k) && #[trigger] nl_block(cfg, cfg.blocks_view()[k], s)
}

pub open spec fn nl_prefix(cfg: il::ControlFlowGraph, bs: Seq<&il::Block>, n: int, s: il::Scalar) -> bool {
    exists|i: int| 0 <= i < n && i < bs.len() && nl_block(cfg, *(#[trigger] bs[i]), s)
}

pub open spec fn ref_listed(refs: Seq<&il::Scalar>, n: int, s: il::Scalar) -> bool {
    exists|j: int| 0 <= j < n && j < refs.len() && *(#[trigger] refs[j]) == s
}

pub open spec fn guard_listed(es: Seq<&il::Edge>, n: int, s: il::Scalar) -> bool {
    exists|e: int| 0 <= e < n && e < es.len() && edge_reads(*(#[trigger] es[e]), s)
}

pub proof fn lemma_exposed_step(b: il::Block, i: int)
    requires 0 <= i,
    ensures forall|s: il::Scalar| #![trigger exposed_before(b, i + 1, s)] exposed_before(b, i + 1, s) <==> (exposed_before(b, i, s) || exposed_at(b, i, s)),
{
    assert forall|s: il::Scalar| #![trigger exposed_before(b, i + 1, s)] exposed_before(b, i + 1, s) <==> (exposed_before(b, i, s) || exposed_at(b, i, s)) by {
        if exposed_before(b, i + 1, s) {
            let j = choose|j: int| 0 <= j < i + 1 && #[trigger] exposed_at(b, j, s);
            if j < i { assert(0 <= j < i && exposed_at(b, j, s)); }
        }
        if exposed_before(b, i, s) {
            let j = choose|j: int| 0 <= j < i && #[trigger] exposed_at(b, j, s);
            assert(0 <= j < i + 1 && exposed_at(b, j, s));
        }
        if exposed_at(b, i, s) { assert(0 <= i < i + 1 && exposed_at(b, i, s)); }
    }
}

pub proof fn lemma_writes_step(b: il::Block, i: int)
    requires 0 <= i < b.instructions@.len(),
    ensures forall|s: il::Scalar| #![trigger writes_before(b, i + 1, s)] writes_before(b, i + 1, s) <==> (writes_before(b, i, s) || ins_writes(b.instructions@[i]).contains(s)),
{
    assert forall|s: il::Scalar| #![trigger writes_before(b, i + 1, s)] writes_before(b, i + 1, s) <==> (writes_before(b, i, s) || ins_writes(b.instructions@[i]).contains(s)) by {
        if writes_before(b, i + 1, s) {
            let j = choose|j: int| 0 <= j < i + 1 && j < b.instructions@.len() && ins_writes(#[trigger] b.instructions@[j]).contains(s);
            if j < i { assert(0 <= j < i && j < b.instructions@.len() && ins_writes(b.instructions@[j]).contains(s)); }
        }
        if writes_before(b, i, s) {
            let j = choose|j: int| 0 <= j < i && j < b.instructions@.len() && ins_writes(#[trigger] b.instructions@[j]).contains(s);
            assert(0 <= j < i + 1 && j < b.instructions@.len() && ins_writes(b.instructions@[j]).contains(s));
        }
        if ins_writes(b.instructions@[i]).contains(s) { assert(0 <= i < i + 1 && i < b.instructions@.len() && ins_writes(b.instructions@[i]).contains(s)); }
    }
}

/// a listing `refs` of the sequence `ss`: being listed is being a member
pub proof fn lemma_ref_listed_full(refs: Seq<&il::Scalar>, ss: Seq<il::Scalar>)
    requires il::refs_are(refs, ss),
    ensures forall|s: il::Scalar| #![trigger ss.contains(s)] ref_listed(refs, refs.len() as int, s) <==> ss.contains(s),
{
    assert forall|s: il::Scalar| #![trigger ss.contains(s)] ref_listed(refs, refs.len() as int, s) <==> ss.contains(s) by {
        if ref_listed(refs, refs.len() as int, s) {
            let j = choose|j: int| 0 <= j < refs.len() && *(#[trigger] refs[j]) == s;
            assert(ss[j] == s);
        }
        if ss.contains(s) {
            let j = choose|j: int| 0 <= j < ss.len() && ss[j] == s;
            assert(*refs[j] == s);
        }
    }
}

pub proof fn lemma_ref_listed_step(refs: Seq<&il::Scalar>, j: int)
    requires 0 <= j < refs.len(),
    ensures forall|s: il::Scalar| #![trigger ref_listed(refs, j + 1, s)] ref_listed(refs, j + 1, s) <==> (ref_listed(refs, j, s) || *refs[j] == s),
{
    assert forall|s: il::Scalar| #![trigger ref_listed(refs, j + 1, s)] ref_listed(refs, j + 1, s) <==> (ref_listed(refs, j, s) || *refs[j] == s) by {
        if ref_listed(refs, j + 1, s) {
            let i = choose|i: int| 0 <= i < j + 1 && i < refs.len() && *(#[trigger] refs[i]) == s;
            if i < j { assert(0 <= i < j && i < refs.len() && *refs[i] == s); }
        }
        if ref_listed(refs, j, s) {
            let i = choose|i: int| 0 <= i < j && i < refs.len() && *(#[trigger] refs[i]) == s;
            assert(0 <= i < j + 1 && i < refs.len() && *refs[i] == s);
        }
        if *refs[j] == s { assert(0 <= j < j + 1 && j < refs.len() && *refs[j] == s); }
    }
}

pub proof fn lemma_guard_listed_step(es: Seq<&il::Edge>, e: int)
    requires 0 <= e < es.len(),
    ensures forall|s: il::Scalar| #![trigger guard_listed(es, e + 1, s)] guard_listed(es, e + 1, s) <==> (guard_listed(es, e, s) || edge_reads(*es[e], s)),
{
    assert forall|s: il::Scalar| #![trigger guard_listed(es, e + 1, s)] guard_listed(es, e + 1, s) <==> (guard_listed(es, e, s) || edge_reads(*es[e], s)) by {
        if guard_listed(es, e + 1, s) {
            let i = choose|i: int| 0 <= i < e + 1 && i < es.len() && edge_reads(*(#[trigger] es[i]), s);
            if i < e { assert(0 <= i < e && i < es.len() && edge_reads(*es[i], s)); }
        }
        if guard_listed(es, e, s) {
            let i = choose|i: int| 0 <= i < e && i < es.len() && edge_reads(*(#[trigger] es[i]), s);
            assert(0 <= i < e + 1 && i < es.len() && edge_reads(*es[i], s));
        }
        if edge_reads(*es[e], s) { assert(0 <= e < e + 1 && e < es.len() && edge_reads(*es[e], s)); }
    }
}

/// `es` lists the edges leaving block `h`: a guard among the listed edges reads `s` iff some edge h -> t of cfg does
pub proof fn lemma_guard_listed_full(cfg: il::ControlFlowGraph, h: usize, es: Seq<&il::Edge>)
    requires cfg.graph.graph_wf(), cfg.graph.lists_edges(es, |k: (usize, usize)| k.0 == h),
    ensures forall|s: il::Scalar| #![trigger guard_listed(es, es.len() as int, s)] guard_listed(es, es.len() as int, s) <==> (exists|t: usize| #[trigger] guard_reads(cfg, h, t, s)),
{
    let sel = |k: (usize, usize)| k.0 == h;
    assert forall|s: il::Scalar| #![trigger guard_listed(es, es.len() as int, s)] guard_listed(es, es.len() as int, s) <==> (exists|t: usize| #[trigger] guard_reads(cfg, h, t, s)) by {
        if guard_listed(es, es.len() as int, s) {
            let i = choose|i: int| 0 <= i < es.len() && edge_reads(*(#[trigger] es[i]), s);
            let k = (es[i].head_spec(), es[i].tail_spec());
            assert(sel(k) && cfg.graph.edges@.contains_key(k) && *es[i] == cfg.graph.edges@[k]);
            assert(guard_reads(cfg, h, k.1, s));
        }
        if exists|t: usize| #[trigger] guard_reads(cfg, h, t, s) {
            let t = choose|t: usize| #[trigger] guard_reads(cfg, h, t, s);
            assert(sel((h, t)) && cfg.graph.edges@.contains_key((h, t)));
            let i = choose|i: int| 0 <= i < es.len() && ((#[trigger] es[i]).head_spec(), es[i].tail_spec()) == (h, t);
            assert(*es[i] == cfg.graph.edges@[(es[i].head_spec(), es[i].tail_spec())]);
            assert(edge_reads(*es[i], s));
        }
    }
}

pub proof fn lemma_nl_prefix_step(cfg: il::ControlFlowGraph, bs: Seq<&il::Block>, n: int)
    requires 0 <= n < bs.len(),
    ensures forall|s: il::Scalar| #![trigger nl_prefix(cfg, bs, n + 1, s)] nl_prefix(cfg, bs, n + 1, s) <==> (nl_prefix(cfg, bs, n, s) || nl_block(cfg, *bs[n], s)),
{
    assert forall|s: il::Scalar| #![trigger nl_prefix(cfg, bs, n + 1, s)] nl_prefix(cfg, bs, n + 1, s) <==> (nl_prefix(cfg, bs, n, s) || nl_block(cfg, *bs[n], s)) by {
        if nl_prefix(cfg, bs, n + 1, s) {
            let i = choose|i: int| 0 <= i < n + 1 && i < bs.len() && nl_block(cfg, *(#[trigger] bs[i]), s);
            if i < n { assert(0 <= i < n && i < bs.len() && nl_block(cfg, *bs[i], s)); }
        }
        if nl_prefix(cfg, bs, n, s) {
            let i = choose|i: int| 0 <= i < n && i < bs.len() && nl_block(cfg, *(#[trigger] bs[i]), s);
            assert(0 <= i < n + 1 && i < bs.len() && nl_block(cfg, *bs[i], s));
        }
        if nl_block(cfg, *bs[n], s) { assert(0 <= n < n + 1 && n < bs.len() && nl_block(cfg, *bs[n], s)); }
    }
}

pub proof fn lemma_nl_prefix_full(cfg: il::ControlFlowGraph, bs: Seq<&il::Block>, n: int)
    requires cfg.graph.lists_vertices(bs, |k: usize| true),
    ensures n == bs.len() ==> forall|s: il::Scalar| #![trigger non_local(cfg, s)] nl_prefix(cfg, bs, n, s) <==> non_local(cfg, s),
{
    if n != bs.len() { return; }
    assert forall|s: il::Scalar| #![trigger non_local(cfg, s)] nl_prefix(cfg, bs, n, s) <==> non_local(cfg, s) by {
        if nl_prefix(cfg, bs, n, s) {
            let i = choose|i: int| 0 <= i < n && i < bs.len() && nl_block(cfg, *(#[trigger] bs[i]), s);
            let k = bs[i].index_spec();
            assert(cfg.graph.vertices@.contains_key(k) && *bs[i] == cfg.graph.vertices@[k]);
            assert(cfg.has_block(k) && nl_block(cfg, cfg.blocks_view()[k], s));
        }
        if non_local(cfg, s) {
            let k = choose|k: usize| cfg.has_block(k) && #[trigger] nl_block(cfg, cfg.blocks_view()[k], s);
            let ids = |k: usize| true;
            assert(ids(k) && cfg.graph.vertices@.contains_key(k));
            let i = choose|i: int| 0 <= i < bs.len() && (#[trigger] bs[i]).index_spec() == k;
            assert(*bs[i] == cfg.graph.vertices@[bs[i].index_spec()]);
            assert(0 <= i < n && i < bs.len() && nl_block(cfg, *bs[i], s));
        }
    }
}

//@ fn fn compute_non_local_scalars loops=6
//@ rewrite 1 `let mut non_locals = HashSet::new();` => `let mut non_locals: HashSet<il::Scalar> = HashSet::new();` ## R-type-annot: writes down the type rustc infers for the local (it is the function's return type); needed because the invariant mentions it before the first insert
//@ rewrite 1 `let mut killed = HashSet::new();` => `let mut killed: HashSet<&il::Scalar> = HashSet::new();` ## R-type-annot: writes down the type rustc infers for the local (it receives the `&il::Scalar` items of `scalars_written()`)
//@ rewrite 1 `for block in cfg.blocks() {` => `for block in vf_it0: cfg.blocks() {` ## R-ghost-iter-name: names the ghost iterator of the for loop so that invariants can mention it; no executable change
//@ rewrite 1 `block.instructions().iter().for_each(|inst| {` => `for inst in vf_it1: block.instructions().iter() {` ## R-for-each: `ITER.for_each(|x| BODY)` is by definition `for x in ITER { BODY }` (part 1 of 2; ITER and BODY stay the original tokens)
//@ rewrite 1 `inst.scalars_read() .unwrap_or_default() .into_iter() .filter(|scalar| !killed.contains(scalar)) .for_each(|scalar| {` => `let vf_reads = inst.scalars_read().unwrap_or_default(); for scalar in vf_it2: vf_reads { if !killed.contains(&scalar) {` ## R-filter-for-each: `V.into_iter().filter(|x| P).for_each(|x| BODY)` is by definition `for x in V { if P { BODY } }`; the filter closure receives `&x`, so its `killed.contains(scalar)` is `killed.contains(&scalar)` on the item (part 1 of 2)
//@ rewrite 1 `non_locals.insert(scalar.clone()); });` => `non_locals.insert(scalar.clone()); } }` ## R-filter-for-each: part 2 of 2 (closes the `if` and the `for`)
//@ rewrite 1 `inst.scalars_written() .unwrap_or_default() .into_iter() .for_each(|scalar| {` => `let vf_writes = inst.scalars_written().unwrap_or_default(); for scalar in vf_it3: vf_writes {` ## R-for-each: `V.into_iter().for_each(|x| BODY)` is by definition `for x in V { BODY }` (part 1 of 2)
//@ rewrite 1 `killed.insert(scalar); }); });` => `killed.insert(scalar); } }` ## R-for-each: part 2 of 2 for the inner and the outer `for_each`
//@ rewrite 1 `for edge in edges_out {` => `for edge in vf_it4: edges_out {` ## R-ghost-iter-name: names the ghost iterator of the for loop; no executable change
//@ rewrite 1 `for scalar in condition.scalars() {` => `let vf_cs = condition.scalars(); for scalar in vf_it5: vf_cs {` ## R-let-temp: names the iterated vector and the ghost iterator; no executable change
//@ spec
    requires cfg.graph.graph_wf(),
    ensures
        /*@reads*/ forall|s: il::Scalar, k: usize| #![trigger exposed_before(cfg.blocks_view()[k], cfg.blocks_view()[k].instructions@.len() as int, s)]
            cfg.has_block(k) && exposed_before(cfg.blocks_view()[k], cfg.blocks_view()[k].instructions@.len() as int, s) ==> r@.contains(s),
        /*@guards*/ forall|s: il::Scalar, h: usize, t: usize| #![trigger guard_reads(*cfg, h, t, s)]
            guard_reads(*cfg, h, t, s) && cfg.has_block(h) && !block_writes(cfg.blocks_view()[h], s) ==> r@.contains(s),
        /*@only*/ forall|s: il::Scalar| #![trigger r@.contains(s)] r@.contains(s) ==> non_local(*cfg, s),
        /*@exact*/ forall|s: il::Scalar| #![trigger non_local(*cfg, s)] non_local(*cfg, s) ==> r@.contains(s),
//@ loop 0
    invariant
        cfg.graph.graph_wf(),
        cfg.graph.lists_vertices(vf_it0.seq(), |k: usize| true),
        vf_it0.seq().len() == cfg.graph.vertices@.dom().len(),
        forall|s: il::Scalar| #![trigger non_locals@.contains(s)] non_locals@.contains(s) <==> nl_prefix(*cfg, vf_it0.seq(), vf_it0.index@ as int, s),
        vf_it0.index@ == vf_it0.seq().len() ==> (forall|s: il::Scalar| #![trigger non_locals@.contains(s)] non_locals@.contains(s) <==> non_local(*cfg, s)),
//@ before 0 `for block in vf_it0`
    proof {
        if cfg.graph.vertices@.dom().len() == 0 {
            assert forall|k: usize| !cfg.graph.vertices@.contains_key(k) by { if cfg.graph.vertices@.dom().contains(k) { vstd::set_lib::lemma_set_empty_equivalency_len(cfg.graph.vertices@.dom()); } }
        }
    }
//@ before 0 `let mut killed`
    let ghost vf_k0 = vf_it0.index@ as int;
    let ghost vf_bs = vf_it0.seq();
    proof {
        assert(*block == *vf_bs[vf_k0]);
        let ids = |k: usize| true;
        assert(ids(vf_bs[vf_k0].index_spec()) && cfg.graph.vertices@.contains_key(vf_bs[vf_k0].index_spec()) && *vf_bs[vf_k0] == cfg.graph.vertices@[vf_bs[vf_k0].index_spec()]);
    }
//@ loop 1
    invariant
        0 <= vf_k0 < vf_bs.len(),
        *block == *vf_bs[vf_k0],
        vf_it1.seq().len() == block.instructions@.len(),
        forall|j: int| 0 <= j < vf_it1.seq().len() ==> *(#[trigger] vf_it1.seq()[j]) == block.instructions@[j],
        forall|s: &il::Scalar| #![trigger killed@.contains(s)] killed@.contains(s) <==> writes_before(*block, vf_it1.index@ as int, *s),
        forall|s: il::Scalar| #![trigger non_locals@.contains(s)] non_locals@.contains(s) <==> (nl_prefix(*cfg, vf_bs, vf_k0, s) || exposed_before(*block, vf_it1.index@ as int, s)),
//@ before 0 `for scalar in vf_it2`
    let ghost vf_i = vf_it1.index@ as int;
    let ghost vf_rs = vf_reads@;
    proof {
        assert(*inst == block.instructions@[vf_i]);
        assert(il::refs_are(vf_rs, ins_reads(block.instructions@[vf_i])));
        lemma_exposed_step(*block, vf_i);
        lemma_ref_listed_full(vf_rs, ins_reads(block.instructions@[vf_i]));
    }
//@ loop 2
    invariant
        vf_it2.seq() == vf_rs,
        0 <= vf_i < block.instructions@.len(),
        il::refs_are(vf_rs, ins_reads(block.instructions@[vf_i])),
        forall|s: &il::Scalar| #![trigger killed@.contains(s)] killed@.contains(s) <==> writes_before(*block, vf_i, *s),
        forall|s: il::Scalar| #![trigger non_locals@.contains(s)] non_locals@.contains(s) <==>
            (nl_prefix(*cfg, vf_bs, vf_k0, s) || exposed_before(*block, vf_i, s) || (ref_listed(vf_rs, vf_it2.index@ as int, s) && !writes_before(*block, vf_i, s))),
//@ before 0 `if !killed.contains(&scalar)`
    proof { lemma_ref_listed_step(vf_rs, vf_it2.index@ as int); }
//@ before 0 `let vf_writes`
    proof {
        assert forall|s: il::Scalar| #![trigger non_locals@.contains(s)] non_locals@.contains(s) <==> (nl_prefix(*cfg, vf_bs, vf_k0, s) || exposed_before(*block, vf_i + 1, s)) by {
            assert(ref_listed(vf_rs, vf_rs.len() as int, s) <==> ins_reads(block.instructions@[vf_i]).contains(s));
            assert(exposed_before(*block, vf_i + 1, s) <==> (exposed_before(*block, vf_i, s) || exposed_at(*block, vf_i, s)));
        }
    }
//@ before 0 `for scalar in vf_it3`
    let ghost vf_ws = vf_writes@;
    proof {
        assert(il::refs_are(vf_ws, ins_writes(block.instructions@[vf_i])));
        lemma_writes_step(*block, vf_i);
        lemma_ref_listed_full(vf_ws, ins_writes(block.instructions@[vf_i]));
    }
//@ loop 3
    invariant
        vf_it3.seq() == vf_ws,
        0 <= vf_i < block.instructions@.len(),
        forall|s: &il::Scalar| #![trigger killed@.contains(s)] killed@.contains(s) <==> (writes_before(*block, vf_i, *s) || ref_listed(vf_ws, vf_it3.index@ as int, *s)),
        forall|s: il::Scalar| #![trigger non_locals@.contains(s)] non_locals@.contains(s) <==> (nl_prefix(*cfg, vf_bs, vf_k0, s) || exposed_before(*block, vf_i + 1, s)),
//@ before 0 `killed.insert(scalar);`
    proof { lemma_ref_listed_step(vf_ws, vf_it3.index@ as int); }
//@ after 0 `killed.insert(scalar); }`
    proof {
        assert forall|s: &il::Scalar| #![trigger killed@.contains(s)] killed@.contains(s) <==> writes_before(*block, vf_i + 1, *s) by {
            assert(ref_listed(vf_ws, vf_ws.len() as int, *s) <==> ins_writes(block.instructions@[vf_i]).contains(*s));
            assert(writes_before(*block, vf_i + 1, *s) <==> (writes_before(*block, vf_i, *s) || ins_writes(block.instructions@[vf_i]).contains(*s)));
        }
    }
//@ before 0 `if let Ok(edges_out)`
    proof {
        assert forall|s: &il::Scalar| #![trigger killed@.contains(s)] killed@.contains(s) <==> block_writes(*block, *s) by {}
        assert forall|s: il::Scalar| #![trigger non_locals@.contains(s)] non_locals@.contains(s) <==> (nl_prefix(*cfg, vf_bs, vf_k0, s) || exposed_before(*block, block.instructions@.len() as int, s)) by {}
        lemma_nl_prefix_step(*cfg, vf_bs, vf_k0);
        lemma_nl_prefix_full(*cfg, vf_bs, vf_k0 + 1);
        assert(cfg.has_block(block.index));
    }
//@ before 0 `for edge in vf_it4`
    let ghost vf_es = edges_out@;
    proof {
        lemma_guard_listed_full(*cfg, block.index, vf_es);
    }
//@ loop 4
    invariant
        vf_it4.seq() == vf_es,
        0 <= vf_k0 < vf_bs.len(),
        *block == *vf_bs[vf_k0],
        forall|s: &il::Scalar| #![trigger killed@.contains(s)] killed@.contains(s) <==> block_writes(*block, *s),
        forall|s: il::Scalar| #![trigger non_locals@.contains(s)] non_locals@.contains(s) <==>
            (nl_prefix(*cfg, vf_bs, vf_k0, s) || exposed_before(*block, block.instructions@.len() as int, s) || (!block_writes(*block, s) && guard_listed(vf_es, vf_it4.index@ as int, s))),
//@ before 0 `if let Some(condition)`
    let ghost vf_e = vf_it4.index@ as int;
    proof {
        assert(*edge == *vf_es[vf_e]);
        lemma_guard_listed_step(vf_es, vf_e);
    }
//@ before 0 `for scalar in vf_it5`
    let ghost vf_cr = vf_cs@;
    proof {
        assert(il::refs_are(vf_cr, il::expr_scalars(*condition)));
        lemma_ref_listed_full(vf_cr, il::expr_scalars(*condition));
        assert(edge.condition == Some(*condition));
    }
//@ loop 5
    invariant
        vf_it5.seq() == vf_cr,
        0 <= vf_e < vf_es.len(),
        forall|s: &il::Scalar| #![trigger killed@.contains(s)] killed@.contains(s) <==> block_writes(*block, *s),
        forall|s: il::Scalar| #![trigger non_locals@.contains(s)] non_locals@.contains(s) <==>
            (nl_prefix(*cfg, vf_bs, vf_k0, s) || exposed_before(*block, block.instructions@.len() as int, s)
                || (!block_writes(*block, s) && (guard_listed(vf_es, vf_e, s) || ref_listed(vf_cr, vf_it5.index@ as int, s)))),
//@ before 0 `if !killed.contains(&scalar) { non_locals.insert(scalar.clone()); } } }`
    proof { lemma_ref_listed_step(vf_cr, vf_it5.index@ as int); }
//@ before 0 `non_locals }`
    proof {
        assert forall|s: il::Scalar, k: usize| #![trigger exposed_before(cfg.blocks_view()[k], cfg.blocks_view()[k].instructions@.len() as int, s)]
            cfg.has_block(k) && exposed_before(cfg.blocks_view()[k], cfg.blocks_view()[k].instructions@.len() as int, s) implies non_locals@.contains(s) by {
            assert(nl_block(*cfg, cfg.blocks_view()[k], s));
            assert(non_local(*cfg, s));
        }
        assert forall|s: il::Scalar, h: usize, t: usize| #![trigger guard_reads(*cfg, h, t, s)]
            guard_reads(*cfg, h, t, s) && cfg.has_block(h) && !block_writes(cfg.blocks_view()[h], s) implies non_locals@.contains(s) by {
            assert(cfg.blocks_view()[h].index_spec() == h);
            assert(guard_reads(*cfg, cfg.blocks_view()[h].index, t, s));
            assert(nl_block(*cfg, cfg.blocks_view()[h], s));
            assert(non_local(*cfg, s));
        }
    }
//@ end

// ---------------------------------------------------------------------------------------------
// insert_phi_nodes

/// everything of the function except the blocks' phi-node lists is as before
pub open spec fn same_frame(f0: il::Function, f1: il::Function) -> bool {
    let c0 = f0.control_flow_graph;
    let c1 = f1.control_flow_graph;
    &&& f1.address == f0.address && f1.name == f0.name && f1.index == f0.index
    &&& c1.graph.edges == c0.graph.edges && c1.graph.successors == c0.graph.successors && c1.graph.predecessors == c0.graph.predecessors
    &&& c1.next_index == c0.next_index && c1.next_temp_index == c0.next_temp_index && c1.entry == c0.entry && c1.exit == c0.exit && c1.ssa_form == c0.ssa_form
    &&& c1.graph.vertices@.dom() =~= c0.graph.vertices@.dom()
}

/// block b1 is block b0 with phi nodes appended: same index, same instructions at the same positions, same instruction counter
pub open spec fn block_extends(b0: il::Block, b1: il::Block) -> bool {
    &&& b1.index == b0.index && b1.instructions == b0.instructions && b1.next_instruction_index == b0.next_instruction_index
    &&& b0.phi_nodes@.len() <= b1.phi_nodes@.len()
    &&& forall|i: int| 0 <= i < b0.phi_nodes@.len() ==> #[trigger] b1.phi_nodes@[i] == b0.phi_nodes@[i]
}

/// a phi node `p` placed in block `k` of the graph `c0` by insert_phi_nodes:
///  * exactly one incoming entry per predecessor of k (the key set of `incoming` IS the predecessor set), each naming the
///    (still unversioned) scalar the phi node defines,
///  * an entry incoming iff k is the entry block,
///  * only for a scalar that is non-local and assigned somewhere.
pub open spec fn phi_ok(c0: il::ControlFlowGraph, entry: usize, k: usize, p: il::PhiNode) -> bool {
    &&& p.incoming@.dom() =~= c0.graph.predecessors@[k]@
    &&& forall|q: usize| #![trigger p.incoming@[q]] p.incoming@.contains_key(q) ==> p.incoming@[q] == p.out
    &&& p.entry == (if k == entry { Some(p.out) } else { None::<il::Scalar> })
    &&& non_local(c0, p.out)
    &&& exists|b: usize| #[trigger] mutated_at(c0, p.out, b)
}

/// f1 is f0 with phi nodes added, every added phi node well formed
pub open spec fn phis_added(f0: il::Function, f1: il::Function, entry: usize) -> bool {
    let c0 = f0.control_flow_graph;
    let c1 = f1.control_flow_graph;
    &&& same_frame(f0, f1)
    &&& forall|k: usize| #![trigger c1.graph.vertices@[k]] c0.graph.vertices@.contains_key(k) ==> block_extends(c0.graph.vertices@[k], c1.graph.vertices@[k])
    &&& forall|k: usize, i: int| #![trigger c1.graph.vertices@[k].phi_nodes@[i]] c0.graph.vertices@.contains_key(k) && c0.graph.vertices@[k].phi_nodes@.len() <= i < c1.graph.vertices@[k].phi_nodes@.len()
            ==> phi_ok(c0, entry, k, c1.graph.vertices@[k].phi_nodes@[i])
}

/// adding phi nodes keeps the data invariant
pub proof fn lemma_phis_added_wf(f0: il::Function, f1: il::Function, entry: usize)
    requires f0.control_flow_graph.cfg_wf(), phis_added(f0, f1, entry),
    ensures f1.control_flow_graph.cfg_wf(),
{
    let c0 = f0.control_flow_graph;
    let c1 = f1.control_flow_graph;
    assert forall|k: usize| #![trigger c1.graph.vertices@[k]] c1.graph.vertices@.contains_key(k) implies c1.graph.vertices@[k].block_wf() && c1.graph.vertices@[k].index == k by {
        assert(c0.graph.vertices@.contains_key(k));
        assert(block_extends(c0.graph.vertices@[k], c1.graph.vertices@[k]));
        assert(c0.graph.vertices@[k].block_wf() && c0.graph.vertices@[k].index == k);
    }
    assert(c1.graph.vertex_wf());
    assert(c1.graph.adj_wf());
}

/// one more phi node in block `d`
pub proof fn lemma_phis_added_step(f0: il::Function, f1: il::Function, f2: il::Function, entry: usize, d: usize, p: il::PhiNode)
    requires
        phis_added(f0, f1, entry),
        same_frame(f1, f2),
        f1.control_flow_graph.graph.vertices@.contains_key(d),
        f2.control_flow_graph.graph.vertices@ == f1.control_flow_graph.graph.vertices@.insert(d, f2.control_flow_graph.graph.vertices@[d]),
        ({ let b1 = f1.control_flow_graph.graph.vertices@[d]; let b2 = f2.control_flow_graph.graph.vertices@[d];
           b2.index == b1.index && b2.instructions == b1.instructions && b2.next_instruction_index == b1.next_instruction_index && b2.phi_nodes@ == b1.phi_nodes@.push(p) }),
        phi_ok(f0.control_flow_graph, entry, d, p),
    ensures
        phis_added(f0, f2, entry),
{
    let c0 = f0.control_flow_graph;
    let c1 = f1.control_flow_graph;
    let c2 = f2.control_flow_graph;
    assert forall|k: usize| #![trigger c2.graph.vertices@[k]] c0.graph.vertices@.contains_key(k) implies block_extends(c0.graph.vertices@[k], c2.graph.vertices@[k]) by {
        assert(block_extends(c0.graph.vertices@[k], c1.graph.vertices@[k]));
        if k == d {
            let b0 = c0.graph.vertices@[k]; let b1 = c1.graph.vertices@[k]; let b2 = c2.graph.vertices@[k];
            assert forall|i: int| 0 <= i < b0.phi_nodes@.len() implies #[trigger] b2.phi_nodes@[i] == b0.phi_nodes@[i] by { assert(b1.phi_nodes@[i] == b0.phi_nodes@[i]); }
        } else { assert(c2.graph.vertices@[k] == c1.graph.vertices@[k]); }
    }
    assert forall|k: usize, i: int| #![trigger c2.graph.vertices@[k].phi_nodes@[i]] c0.graph.vertices@.contains_key(k) && c0.graph.vertices@[k].phi_nodes@.len() <= i < c2.graph.vertices@[k].phi_nodes@.len()
        implies phi_ok(c0, entry, k, c2.graph.vertices@[k].phi_nodes@[i]) by {
        assert(block_extends(c0.graph.vertices@[k], c1.graph.vertices@[k]));
        if k == d {
            let b1 = c1.graph.vertices@[k]; let b2 = c2.graph.vertices@[k];
            if i < b1.phi_nodes@.len() { assert(b2.phi_nodes@[i] == b1.phi_nodes@[i]); assert(phi_ok(c0, entry, k, c1.graph.vertices@[k].phi_nodes@[i])); }
            else { assert(b2.phi_nodes@[i] == p); }
        } else {
            assert(c2.graph.vertices@[k] == c1.graph.vertices@[k]);
            assert(phi_ok(c0, entry, k, c1.graph.vertices@[k].phi_nodes@[i]));
        }
    }
}

// ---- placement on the iterated frontier --------------------------------------------------------------

/// d is in the frontier set the table `df` records for b
pub open spec fn df_has(df: Map<usize, FxHashSet<usize>>, b: usize, d: usize) -> bool {
    df.contains_key(b) && df[b]@.contains(d)
}

/// block k of f1 holds a phi node for `s` which f0 did not have
pub open spec fn new_phi_for(f0: il::Function, f1: il::Function, k: usize, s: il::Scalar) -> bool {
    let b0 = f0.control_flow_graph.graph.vertices@[k];
    let b1 = f1.control_flow_graph.graph.vertices@[k];
    f0.control_flow_graph.graph.vertices@.contains_key(k)
        && exists|i: int| b0.phi_nodes@.len() <= i < b1.phi_nodes@.len() && (#[trigger] b1.phi_nodes@[i]).out == s
}

/// block b defines `s`: by an instruction, or by one of the added phi nodes
pub open spec fn phi_src(f0: il::Function, f1: il::Function, s: il::Scalar, b: usize) -> bool {
    mutated_at(f0.control_flow_graph, s, b) || new_phi_for(f0, f1, b, s)
}

/// ITERATED: every frontier block of a block that defines `s` (instruction or added phi node) carries a phi node for `s`
pub open spec fn phis_closed(f0: il::Function, f1: il::Function, df: Map<usize, FxHashSet<usize>>, s: il::Scalar) -> bool {
    forall|b: usize, d: usize| #![trigger df_has(df, b, d)] phi_src(f0, f1, s, b) && df_has(df, b, d) ==> new_phi_for(f0, f1, d, s)
}

/// ONLY THERE: an added phi node for `s` sits in a frontier block of some block that defines `s`
pub open spec fn phis_justified(f0: il::Function, f1: il::Function, df: Map<usize, FxHashSet<usize>>, s: il::Scalar) -> bool {
    forall|k: usize| #![trigger new_phi_for(f0, f1, k, s)] new_phi_for(f0, f1, k, s) ==> exists|b: usize| phi_src(f0, f1, s, b) && #[trigger] df_has(df, b, k)
}

pub open spec fn scalar_done(f0: il::Function, f1: il::Function, df: Map<usize, FxHashSet<usize>>, s: il::Scalar) -> bool {
    (non_local(f0.control_flow_graph, s) ==> phis_closed(f0, f1, df, s)) && phis_justified(f0, f1, df, s)
}

/// AT MOST ONE added phi node per scalar and block
pub open spec fn phis_unique(f0: il::Function, f1: il::Function) -> bool {
    forall|k: usize, i: int, j: int| #![trigger f1.control_flow_graph.graph.vertices@[k].phi_nodes@[i], f1.control_flow_graph.graph.vertices@[k].phi_nodes@[j]]
        f0.control_flow_graph.graph.vertices@.contains_key(k) && f0.control_flow_graph.graph.vertices@[k].phi_nodes@.len() <= i < j < f1.control_flow_graph.graph.vertices@[k].phi_nodes@.len()
        ==> f1.control_flow_graph.graph.vertices@[k].phi_nodes@[i].out != f1.control_flow_graph.graph.vertices@[k].phi_nodes@[j].out
}

pub open spec fn key_listed(items: Seq<(il::Scalar, HashSet<usize>)>, n: int, s: il::Scalar) -> bool {
    exists|i: int| 0 <= i < n && i < items.len() && (#[trigger] items[i]).0 == s
}

/// f1 and f2 carry added phi nodes for `s` in the same blocks
pub open spec fn same_phis_for(f0: il::Function, f1: il::Function, f2: il::Function, s: il::Scalar) -> bool {
    forall|k: usize| #![trigger new_phi_for(f0, f2, k, s)] new_phi_for(f0, f2, k, s) <==> new_phi_for(f0, f1, k, s)
}

pub proof fn lemma_same_phis_done(f0: il::Function, f1: il::Function, f2: il::Function, df: Map<usize, FxHashSet<usize>>, s: il::Scalar)
    requires same_phis_for(f0, f1, f2, s), scalar_done(f0, f1, df, s),
    ensures scalar_done(f0, f2, df, s),
{
    if non_local(f0.control_flow_graph, s) {
        assert forall|b: usize, d: usize| #![trigger df_has(df, b, d)] phi_src(f0, f2, s, b) && df_has(df, b, d) implies new_phi_for(f0, f2, d, s) by {
            assert(new_phi_for(f0, f2, b, s) <==> new_phi_for(f0, f1, b, s));
            assert(phi_src(f0, f1, s, b));
            assert(new_phi_for(f0, f1, d, s));
            assert(new_phi_for(f0, f2, d, s) <==> new_phi_for(f0, f1, d, s));
        }
    }
    assert forall|k: usize| #![trigger new_phi_for(f0, f2, k, s)] new_phi_for(f0, f2, k, s) implies exists|b: usize| phi_src(f0, f2, s, b) && #[trigger] df_has(df, b, k) by {
        assert(new_phi_for(f0, f1, k, s));
        let b = choose|b: usize| phi_src(f0, f1, s, b) && #[trigger] df_has(df, b, k);
        assert(new_phi_for(f0, f2, b, s) <==> new_phi_for(f0, f1, b, s));
        assert(phi_src(f0, f2, s, b) && df_has(df, b, k));
    }
}

/// the effect of one more phi node `p` in block `d` on new_phi_for / phis_unique
pub proof fn lemma_new_phi_step(f0: il::Function, f1: il::Function, f2: il::Function, entry: usize, d: usize, p: il::PhiNode)
    requires
        phis_added(f0, f1, entry),
        f1.control_flow_graph.graph.vertices@.contains_key(d),
        f2.control_flow_graph.graph.vertices@ == f1.control_flow_graph.graph.vertices@.insert(d, f2.control_flow_graph.graph.vertices@[d]),
        f2.control_flow_graph.graph.vertices@[d].phi_nodes@ == f1.control_flow_graph.graph.vertices@[d].phi_nodes@.push(p),
    ensures
        forall|k: usize, s: il::Scalar| #![trigger new_phi_for(f0, f2, k, s)] new_phi_for(f0, f2, k, s) <==> (new_phi_for(f0, f1, k, s) || (k == d && s == p.out)),
        phis_unique(f0, f1) && !new_phi_for(f0, f1, d, p.out) ==> phis_unique(f0, f2),
{
    let c0 = f0.control_flow_graph; let c1 = f1.control_flow_graph; let c2 = f2.control_flow_graph;
    assert(c0.graph.vertices@.contains_key(d));
    assert(block_extends(c0.graph.vertices@[d], c1.graph.vertices@[d]));
    let n0 = c0.graph.vertices@[d].phi_nodes@.len() as int;
    let n1 = c1.graph.vertices@[d].phi_nodes@.len() as int;
    assert forall|k: usize, s: il::Scalar| #![trigger new_phi_for(f0, f2, k, s)] new_phi_for(f0, f2, k, s) <==> (new_phi_for(f0, f1, k, s) || (k == d && s == p.out)) by {
        if k != d {
            assert(c2.graph.vertices@[k] == c1.graph.vertices@[k]) by { if c1.graph.vertices@.contains_key(k) {} }
            if c0.graph.vertices@.contains_key(k) { assert(c1.graph.vertices@.contains_key(k)); }
        } else {
            let b1 = c1.graph.vertices@[d]; let b2 = c2.graph.vertices@[d];
            if new_phi_for(f0, f2, k, s) {
                let i = choose|i: int| n0 <= i < b2.phi_nodes@.len() && (#[trigger] b2.phi_nodes@[i]).out == s;
                if i < n1 { assert(b1.phi_nodes@[i] == b2.phi_nodes@[i]); assert(n0 <= i < b1.phi_nodes@.len() && b1.phi_nodes@[i].out == s); }
                else { assert(b2.phi_nodes@[i] == p); }
            }
            if new_phi_for(f0, f1, k, s) {
                let i = choose|i: int| n0 <= i < b1.phi_nodes@.len() && (#[trigger] b1.phi_nodes@[i]).out == s;
                assert(b2.phi_nodes@[i] == b1.phi_nodes@[i]);
                assert(n0 <= i < b2.phi_nodes@.len() && b2.phi_nodes@[i].out == s);
            }
            if s == p.out { assert(b2.phi_nodes@[n1] == p); assert(n0 <= n1 < b2.phi_nodes@.len() && b2.phi_nodes@[n1].out == s); }
        }
    }
    if phis_unique(f0, f1) && !new_phi_for(f0, f1, d, p.out) {
        assert forall|k: usize, i: int, j: int| #![trigger c2.graph.vertices@[k].phi_nodes@[i], c2.graph.vertices@[k].phi_nodes@[j]]
            c0.graph.vertices@.contains_key(k) && c0.graph.vertices@[k].phi_nodes@.len() <= i < j < c2.graph.vertices@[k].phi_nodes@.len()
            implies c2.graph.vertices@[k].phi_nodes@[i].out != c2.graph.vertices@[k].phi_nodes@[j].out by {
            if k != d {
                assert(c1.graph.vertices@.contains_key(k));
                assert(c2.graph.vertices@[k] == c1.graph.vertices@[k]);
                assert(c1.graph.vertices@[k].phi_nodes@[i].out != c1.graph.vertices@[k].phi_nodes@[j].out);
            } else {
                let b1 = c1.graph.vertices@[d]; let b2 = c2.graph.vertices@[d];
                assert(b2.phi_nodes@[i] == b1.phi_nodes@[i]);
                if j < n1 { assert(b2.phi_nodes@[j] == b1.phi_nodes@[j]); assert(b1.phi_nodes@[i].out != b1.phi_nodes@[j].out); }
                else {
                    assert(b2.phi_nodes@[j] == p);
                    if b1.phi_nodes@[i].out == p.out { assert(n0 <= i < b1.phi_nodes@.len() && b1.phi_nodes@[i].out == p.out); assert(new_phi_for(f0, f1, d, p.out)); }
                }
            }
        }
    }
}

/// the state of the worklist for the scalar `s` (phi_insertions = ins, queue = q): what has been placed is justified,
/// and every block that defines `s` and has left the queue (other than `cur`, the one being processed) has its whole frontier served
pub open spec fn work_ok(defs: Set<usize>, ins: Set<usize>, q: Seq<usize>, cur: Option<usize>, df: Map<usize, FxHashSet<usize>>) -> bool {
    &&& forall|b: usize, d: usize| #![trigger df_has(df, b, d)] (defs.contains(b) || ins.contains(b)) && !q.contains(b) && cur != Some(b) && df_has(df, b, d) ==> ins.contains(d)
    &&& forall|k: usize| #![trigger ins.contains(k)] ins.contains(k) ==> exists|b: usize| (defs.contains(b) || ins.contains(b)) && #[trigger] df_has(df, b, k)
    &&& forall|i: int| 0 <= i < q.len() ==> defs.contains(#[trigger] q[i]) || ins.contains(q[i])
    &&& (cur matches Some(c) ==> defs.contains(c) || ins.contains(c))
}

/// popping the front of the queue makes it the block being processed
pub proof fn lemma_work_pop(defs: Set<usize>, ins: Set<usize>, q0: Seq<usize>, q1: Seq<usize>, c: usize, df: Map<usize, FxHashSet<usize>>)
    requires work_ok(defs, ins, q0, None, df), q0.len() > 0, q0[0] == c, q1 == q0.subrange(1, q0.len() as int),
    ensures work_ok(defs, ins, q1, Some(c), df),
{
    graph::lemma_drop_first_contains(q0);
    assert forall|b: usize, d: usize| #![trigger df_has(df, b, d)] (defs.contains(b) || ins.contains(b)) && !q1.contains(b) && Some(c) != Some(b) && df_has(df, b, d) implies ins.contains(d) by {
        assert(q0.contains(b) <==> (b == q0[0] || q1.contains(b)));
        assert(!q0.contains(b));
    }
    assert forall|i: int| 0 <= i < q1.len() implies defs.contains(#[trigger] q1[i]) || ins.contains(q1[i]) by { assert(q1[i] == q0[i + 1]); }
    assert(defs.contains(q0[0]) || ins.contains(q0[0]));
}

/// one frontier block `d` of the block `c` being processed gets its phi node; it joins the queue unless it is a definition block
pub proof fn lemma_work_insert(defs: Set<usize>, ins: Set<usize>, q: Seq<usize>, c: usize, d: usize, df: Map<usize, FxHashSet<usize>>)
    requires work_ok(defs, ins, q, Some(c), df), df_has(df, c, d), !ins.contains(d),
    ensures
        defs.contains(d) ==> work_ok(defs, ins.insert(d), q, Some(c), df),
        !defs.contains(d) ==> work_ok(defs, ins.insert(d), q.push(d), Some(c), df),
{
    let ins2 = ins.insert(d);
    let q2 = if defs.contains(d) { q } else { q.push(d) };
    graph::lemma_push_contains(q, d);
    assert forall|b: usize, x: usize| #![trigger df_has(df, b, x)] (defs.contains(b) || ins2.contains(b)) && !q2.contains(b) && Some(c) != Some(b) && df_has(df, b, x) implies ins2.contains(x) by {
        if b == d && !defs.contains(d) { assert(q.push(d).contains(d)); }
        else {
            if !defs.contains(d) { assert(q.push(d).contains(b) <==> (b == d || q.contains(b))); }
            assert(defs.contains(b) || ins.contains(b));
            assert(!q.contains(b));
            assert(ins.contains(x));
        }
    }
    assert forall|k: usize| #![trigger ins2.contains(k)] ins2.contains(k) implies exists|b: usize| (defs.contains(b) || ins2.contains(b)) && #[trigger] df_has(df, b, k) by {
        if k == d { assert((defs.contains(c) || ins2.contains(c)) && df_has(df, c, d)); }
        else {
            assert(ins.contains(k));
            let b = choose|b: usize| (defs.contains(b) || ins.contains(b)) && #[trigger] df_has(df, b, k);
            assert((defs.contains(b) || ins2.contains(b)) && df_has(df, b, k));
        }
    }
    assert forall|i: int| 0 <= i < q2.len() implies defs.contains(#[trigger] q2[i]) || ins2.contains(q2[i]) by {
        if i < q.len() { assert(q2[i] == q[i]); assert(defs.contains(q[i]) || ins.contains(q[i])); }
    }
}

/// the whole frontier of the block being processed is served: it is done
pub proof fn lemma_work_done(defs: Set<usize>, ins: Set<usize>, q: Seq<usize>, c: usize, df: Map<usize, FxHashSet<usize>>)
    requires work_ok(defs, ins, q, Some(c), df), forall|d: usize| #![trigger df_has(df, c, d)] df_has(df, c, d) ==> ins.contains(d),
    ensures work_ok(defs, ins, q, None, df),
{
}

/// an empty queue: the placement for `s` is closed under the frontier table and justified
pub proof fn lemma_work_finished(f0: il::Function, f1: il::Function, defs: Set<usize>, ins: Set<usize>, df: Map<usize, FxHashSet<usize>>, s: il::Scalar)
    requires
        work_ok(defs, ins, Seq::<usize>::empty(), None, df),
        forall|b: usize| #![trigger defs.contains(b)] defs.contains(b) <==> mutated_at(f0.control_flow_graph, s, b),
        forall|k: usize| #![trigger ins.contains(k)] ins.contains(k) <==> new_phi_for(f0, f1, k, s),
    ensures
        phis_closed(f0, f1, df, s), phis_justified(f0, f1, df, s),
{
    let q = Seq::<usize>::empty();
    assert forall|b: usize, d: usize| #![trigger df_has(df, b, d)] phi_src(f0, f1, s, b) && df_has(df, b, d) implies new_phi_for(f0, f1, d, s) by {
        assert(defs.contains(b) || ins.contains(b));
        assert(!q.contains(b));
        assert(ins.contains(d));
    }
    assert forall|k: usize| #![trigger new_phi_for(f0, f1, k, s)] new_phi_for(f0, f1, k, s) implies exists|b: usize| phi_src(f0, f1, s, b) && #[trigger] df_has(df, b, k) by {
        assert(ins.contains(k));
        let b = choose|b: usize| (defs.contains(b) || ins.contains(b)) && #[trigger] df_has(df, b, k);
        assert(phi_src(f0, f1, s, b) && df_has(df, b, k));
    }
}

/// `dfh` is a value compute_dominance_frontiers(entry) may return for the graph `g` (unit C11 specifies that function
/// structurally only: one entry per vertex, members are vertices reachable from the entry; its equality with the textbook
/// dominance frontier is bounded-checked there)
pub open spec fn frontier_table(g: graph::Graph<il::Block, il::Edge>, entry: usize, dfh: FxHashMap<usize, FxHashSet<usize>>) -> bool {
    call_ensures(graph::Graph::<il::Block, il::Edge>::compute_dominance_frontiers, (&g, entry), Ok::<FxHashMap<usize, FxHashSet<usize>>, Error>(dfh))
}

//@ fn fn insert_phi_nodes loops=5
//@ rewrite 1 `for (scalar, defs) in scalars_mutated_in_blocks(cfg) {` => `let vf_m = scalars_mutated_in_blocks(cfg); let vf_items = hashmap_into_items::hashmap_into_items(vf_m); for vf_item in vf_it0: vf_items { let (scalar, defs) = vf_item;` ## R-into-items: by-value iteration over a HashMap = iteration over the vector of its entries (every entry once, order unspecified) obtained through the stand-in of prelude/hashmap_into_items.rs; the tuple pattern becomes a `let`
//@ rewrite 2 `{ continue; }` => `{ } else {` ## R-continue: `if C { continue; } REST` at the end of a loop body is `if C { } else { REST }` (part 1 of 2; Verus for-loops have no `continue`)
//@ rewrite 1 `queue.push_back(*df_index); } } } }` => `queue.push_back(*df_index); } } } } } }` ## R-continue: part 2 of 2, closes the two else blocks (the inner REST ends with the `if !defs.contains` statement, the outer REST with the `while let` loop)
//@ rewrite 1 `let mut queue: VecDeque<usize> = defs.iter().cloned().collect();` => `let mut queue: VecDeque<usize> = { let mut vf_q: VecDeque<usize> = VecDeque::new(); for vf_x in vf_it1: defs.iter() { vf_q.push_back(*vf_x); } vf_q };` ## R-cloned-collect: `ITER.cloned().collect::<VecDeque<_>>()` is by definition the loop pushing a copy of every item to the back
//@ rewrite 1 `for df_index in &dominance_frontiers[&block_index] {` => `for df_index in vf_it3: &dominance_frontiers[&block_index] {` ## R-ghost-iter-name: names the ghost iterator of the for loop; no executable change
//@ rewrite 1 `for predecessor in cfg.predecessor_indices(*df_index)? {` => `let vf_preds = cfg.predecessor_indices(*df_index)?; for predecessor in vf_it4: vf_preds {` ## R-let-temp: names the iterated vector and the ghost iterator; no executable change
//@ spec
    requires old(function).control_flow_graph.cfg_wf(),
    ensures
        /*@no_entry*/ old(function).control_flow_graph.entry is None ==> r is Err && *final(function) == *old(function),
        /*@succeeds*/ old(function).control_flow_graph.entry is Some ==> r is Ok,
        /*@frame*/ same_frame(*old(function), *final(function)),
        /*@blocks*/ forall|k: usize| #![trigger final(function).control_flow_graph.graph.vertices@[k]] old(function).control_flow_graph.has_block(k)
            ==> block_extends(old(function).control_flow_graph.graph.vertices@[k], final(function).control_flow_graph.graph.vertices@[k]),
        /*@phi_nodes*/ old(function).control_flow_graph.entry matches Some(entry) ==> phis_added(*old(function), *final(function), entry),
        /*@one_per_scalar*/ phis_unique(*old(function), *final(function)),
        /*@iterated_frontier*/ old(function).control_flow_graph.entry matches Some(entry) ==> (exists|dfh: FxHashMap<usize, FxHashSet<usize>>|
            #[trigger] frontier_table(old(function).control_flow_graph.graph, entry, dfh) && forall|s: il::Scalar| #[trigger] scalar_done(*old(function), *final(function), dfh@, s)),
        /*@wf*/ final(function).control_flow_graph.cfg_wf(),
//@ enter
    let ghost f0 = *function;
    let ghost c0 = function.control_flow_graph;
    proof {
        assert forall|k: usize, s: il::Scalar| !new_phi_for(f0, f0, k, s) by {}
    }
//@ after 0 `let non_local_scalars = compute_non_local_scalars(cfg);`
    let ghost df = dominance_frontiers@;
    proof {
        assert(phis_added(f0, *function, entry));
        assert(frontier_table(c0.graph, entry, dominance_frontiers));
    }
//@ before 0 `let vf_items`
    let ghost vf_mv = vf_m@;
//@ before 0 `for vf_item in vf_it0`
    let ghost vf_iv = vf_items@;
    proof {
        assert forall|i: int, k: usize| #![trigger vf_iv[i].1@.contains(k)] 0 <= i < vf_iv.len() implies (vf_iv[i].1@.contains(k) <==> mutated_at(c0, vf_iv[i].0, k)) by {
            assert(vf_mv.contains_key(vf_iv[i].0) && vf_mv[vf_iv[i].0] == vf_iv[i].1);
            assert(records(vf_mv, vf_iv[i].0, k) <==> mutated_at(c0, vf_iv[i].0, k));
        }
        assert forall|s: il::Scalar, b: usize| #![trigger mutated_at(c0, s, b)] mutated_at(c0, s, b) implies key_listed(vf_iv, vf_iv.len() as int, s) by {
            assert(records(vf_mv, s, b));
            assert(vf_mv.contains_key(s));
            let i = choose|i: int| 0 <= i < vf_iv.len() && (#[trigger] vf_iv[i]).0 == s;
            assert(0 <= i < vf_iv.len() && vf_iv[i].0 == s);
        }
    }
//@ loop 0
    invariant
        vf_it0.seq() == vf_iv,
        f0.control_flow_graph.cfg_wf(), c0 == f0.control_flow_graph, c0.entry == Some(entry),
        df == dominance_frontiers@,
        frontier_table(c0.graph, entry, dominance_frontiers),
        df.dom() == c0.graph.vertices@.dom(),
        forall|v: usize, x: usize| #![trigger df[v]@.contains(x)] df.contains_key(v) && df[v]@.contains(x) ==> c0.graph.vertices@.contains_key(x),
        forall|s: il::Scalar| #![trigger non_local_scalars@.contains(s)] non_local_scalars@.contains(s) <==> non_local(c0, s),
        forall|i: int, k: usize| #![trigger vf_iv[i].1@.contains(k)] 0 <= i < vf_iv.len() ==> (vf_iv[i].1@.contains(k) <==> mutated_at(c0, vf_iv[i].0, k)),
        forall|s: il::Scalar, b: usize| #![trigger mutated_at(c0, s, b)] mutated_at(c0, s, b) ==> key_listed(vf_iv, vf_iv.len() as int, s),
        forall|i: int, j: int| 0 <= i < j < vf_iv.len() ==> (#[trigger] vf_iv[i]).0 != (#[trigger] vf_iv[j]).0,
        phis_added(f0, *function, entry),
        phis_unique(f0, *function),
        forall|k: usize, s: il::Scalar| #![trigger new_phi_for(f0, *function, k, s)] new_phi_for(f0, *function, k, s) ==> key_listed(vf_iv, vf_it0.index@ as int, s),
        forall|i: int| 0 <= i < vf_it0.index@ ==> scalar_done(f0, *function, df, (#[trigger] vf_iv[i]).0),
//@ before 0 `if !non_local_scalars.contains(&scalar)`
    let ghost vf_n = vf_it0.index@ as int;
    let ghost fs = *function;
    proof {
        assert(vf_item == vf_iv[vf_n]);
        assert forall|k: usize| #![trigger defs@.contains(k)] defs@.contains(k) <==> mutated_at(c0, scalar, k) by {
            assert(vf_iv[vf_n].1@.contains(k) <==> mutated_at(c0, vf_iv[vf_n].0, k));
        }
        assert forall|s: il::Scalar| #![trigger key_listed(vf_iv, vf_n + 1, s)] key_listed(vf_iv, vf_n, s) implies key_listed(vf_iv, vf_n + 1, s) by {
            let i = choose|i: int| 0 <= i < vf_n && i < vf_iv.len() && (#[trigger] vf_iv[i]).0 == s;
            assert(0 <= i < vf_n + 1 && i < vf_iv.len() && vf_iv[i].0 == s);
        }
        assert(key_listed(vf_iv, vf_n + 1, scalar)) by { assert(0 <= vf_n < vf_n + 1 && vf_n < vf_iv.len() && vf_iv[vf_n].0 == scalar); }
        // no phi node for this scalar yet: the scalars handled so far are other keys of the table
        assert forall|k: usize| #![trigger new_phi_for(f0, fs, k, scalar)] !new_phi_for(f0, fs, k, scalar) by {
            if new_phi_for(f0, fs, k, scalar) {
                let i = choose|i: int| 0 <= i < vf_n && i < vf_iv.len() && (#[trigger] vf_iv[i]).0 == scalar;
                assert(vf_iv[i].0 != vf_iv[vf_n].0);
            }
        }
        // a local scalar is done as it is: no phi nodes required, none placed
        if !non_local(c0, scalar) { assert(scalar_done(f0, fs, df, scalar)); }
    }
//@ before 0 `for vf_x in vf_it1`
    proof {
        if defs@.len() == 0 {
            assert forall|b: usize| !defs@.contains(b) by { if defs@.contains(b) { vstd::set_lib::lemma_set_empty_equivalency_len(defs@); } }
        }
    }
//@ loop 1
    invariant
        graph::seq_lists_set_ref(vf_it1.seq(), defs@),
        forall|i: int| 0 <= i < vf_q@.len() ==> defs@.contains(#[trigger] vf_q@[i]),
        forall|j: int| 0 <= j < vf_it1.index@ ==> vf_q@.contains(*(#[trigger] vf_it1.seq()[j])),
        vf_it1.index@ == vf_it1.seq().len() ==> (forall|b: usize| #![trigger defs@.contains(b)] defs@.contains(b) ==> vf_q@.contains(b)),
//@ before 0 `vf_q.push_back(*vf_x);`
    let ghost vf_qb = vf_q@;
    let ghost vf_j1 = vf_it1.index@ as int;
    proof { graph::lemma_seq_lists_set_ref(vf_it1.seq(), defs@); }
//@ after 0 `vf_q.push_back(*vf_x);`
    proof {
        graph::lemma_push_contains(vf_qb, *vf_x);
        assert(vf_q@ =~= vf_qb.push(*vf_x));
        assert forall|j: int| 0 <= j < vf_j1 + 1 implies vf_q@.contains(*(#[trigger] vf_it1.seq()[j])) by {
            if j < vf_j1 { assert(vf_qb.contains(*vf_it1.seq()[j])); }
        }
        assert(vf_j1 + 1 == vf_it1.seq().len() ==> (forall|b: usize| #![trigger defs@.contains(b)] defs@.contains(b) ==> vf_q@.contains(b))) by {
            if vf_j1 + 1 == vf_it1.seq().len() {
                assert forall|b: usize| #![trigger defs@.contains(b)] defs@.contains(b) implies vf_q@.contains(b) by {
                    let j = choose|j: int| 0 <= j < vf_it1.seq().len() && *(#[trigger] vf_it1.seq()[j]) == b;
                    assert(vf_q@.contains(*vf_it1.seq()[j]));
                }
            }
        }
    }
//@ before 0 `while let Some(block_index)`
    let ghost mut gq: Seq<usize> = queue@;
    proof {
        vstd::set_lib::lemma_len_subset(phi_insertions@, c0.graph.vertices@.dom());
        if queue@.len() > 0 { assert(defs@.contains(queue@[0])); assert(mutated_at(c0, scalar, queue@[0])); }
        assert(work_ok(defs@, phi_insertions@, queue@, None, df));
    }
//@ loop 2
    invariant
        gq == queue@,
        f0.control_flow_graph.cfg_wf(), c0 == f0.control_flow_graph, c0.entry == Some(entry),
        df == dominance_frontiers@,
        df.dom() == c0.graph.vertices@.dom(),
        forall|v: usize, x: usize| #![trigger df[v]@.contains(x)] df.contains_key(v) && df[v]@.contains(x) ==> c0.graph.vertices@.contains_key(x),
        non_local(c0, scalar),
        forall|k: usize| #![trigger defs@.contains(k)] defs@.contains(k) <==> mutated_at(c0, scalar, k),
        queue@.len() > 0 ==> (exists|b: usize| #[trigger] mutated_at(c0, scalar, b)),
        forall|i: int| 0 <= i < queue@.len() ==> c0.graph.vertices@.contains_key(#[trigger] queue@[i]),
        phi_insertions@.subset_of(c0.graph.vertices@.dom()),
        phi_insertions@.len() <= c0.graph.vertices@.dom().len(),
        phis_added(f0, *function, entry),
        phis_unique(f0, *function),
        forall|k: usize| #![trigger phi_insertions@.contains(k)] phi_insertions@.contains(k) <==> new_phi_for(f0, *function, k, scalar),
        forall|k: usize, s2: il::Scalar| #![trigger new_phi_for(f0, *function, k, s2)] s2 != scalar ==> (new_phi_for(f0, *function, k, s2) <==> new_phi_for(f0, fs, k, s2)),
        work_ok(defs@, phi_insertions@, queue@, None, df),
    ensures queue@.len() == 0,
    decreases c0.graph.vertices@.dom().len() - phi_insertions@.len() + queue@.len(),
//@ before 0 `for df_index in vf_it3`
    let ghost vf_q0 = queue@;
    let ghost vf_p0 = phi_insertions@;
    proof {
        assert(gq =~= seq![block_index] + vf_q0);
        assert(gq[0] == block_index);
        assert(gq.subrange(1, gq.len() as int) =~= vf_q0);
        lemma_work_pop(defs@, phi_insertions@, gq, vf_q0, block_index, df);
        assert(c0.graph.vertices@.contains_key(block_index));
        if df[block_index]@.len() == 0 {
            assert forall|d: usize| !df[block_index]@.contains(d) by { if df[block_index]@.contains(d) { vstd::set_lib::lemma_set_empty_equivalency_len(df[block_index]@); } }
        }
    }
//@ loop 3
    invariant
        f0.control_flow_graph.cfg_wf(), c0 == f0.control_flow_graph, c0.entry == Some(entry),
        df == dominance_frontiers@,
        df.dom() == c0.graph.vertices@.dom(),
        df.contains_key(block_index),
        graph::seq_lists_set_ref(vf_it3.seq(), df[block_index]@),
        forall|v: usize, x: usize| #![trigger df[v]@.contains(x)] df.contains_key(v) && df[v]@.contains(x) ==> c0.graph.vertices@.contains_key(x),
        non_local(c0, scalar),
        exists|b: usize| #[trigger] mutated_at(c0, scalar, b),
        forall|i: int| 0 <= i < queue@.len() ==> c0.graph.vertices@.contains_key(#[trigger] queue@[i]),
        phi_insertions@.subset_of(c0.graph.vertices@.dom()),
        phi_insertions@.len() <= c0.graph.vertices@.dom().len(),
        c0.graph.vertices@.dom().len() - phi_insertions@.len() + queue@.len() <= c0.graph.vertices@.dom().len() - vf_p0.len() + vf_q0.len(),
        phis_added(f0, *function, entry),
        phis_unique(f0, *function),
        forall|k: usize| #![trigger phi_insertions@.contains(k)] phi_insertions@.contains(k) <==> new_phi_for(f0, *function, k, scalar),
        forall|k: usize, s2: il::Scalar| #![trigger new_phi_for(f0, *function, k, s2)] s2 != scalar ==> (new_phi_for(f0, *function, k, s2) <==> new_phi_for(f0, fs, k, s2)),
        work_ok(defs@, phi_insertions@, queue@, Some(block_index), df),
        forall|j: int| 0 <= j < vf_it3.index@ ==> phi_insertions@.contains(*(#[trigger] vf_it3.seq()[j])),
        vf_it3.index@ == vf_it3.seq().len() ==> (forall|d: usize| #![trigger df_has(df, block_index, d)] df_has(df, block_index, d) ==> phi_insertions@.contains(d)),
//@ before 0 `if phi_insertions.contains(df_index)`
    let ghost f1 = *function;
    let ghost vf_j3 = vf_it3.index@ as int;
    let ghost vf_ins1 = phi_insertions@;
    let ghost vf_q1 = queue@;
    proof {
        graph::lemma_seq_lists_set_ref(vf_it3.seq(), df[block_index]@);
        assert(df[block_index]@.contains(*df_index));
        assert(df_has(df, block_index, *df_index));
        assert(c0.graph.vertices@.contains_key(*df_index));
        lemma_phis_added_wf(f0, f1, entry);
    }
//@ before 0 `for predecessor in vf_it4`
    let ghost vf_ps = vf_preds@;
//@ loop 4
    invariant
        vf_it4.seq() == vf_ps,
        phi_node.out == scalar && phi_node.entry is None,
        forall|q: usize| #![trigger phi_node.incoming@[q]] phi_node.incoming@.contains_key(q) ==> phi_node.incoming@[q] == scalar,
        forall|q: usize| #![trigger phi_node.incoming@.contains_key(q)] phi_node.incoming@.contains_key(q) <==> (exists|j: int| 0 <= j < vf_it4.index@ && #[trigger] vf_ps[j] == q),
//@ before 0 `if *df_index == entry`
    proof {
        assert(phi_node.incoming@.dom() =~= c0.graph.predecessors@[*df_index]@) by {
            assert forall|q: usize| #![trigger phi_node.incoming@.dom().contains(q)] phi_node.incoming@.dom().contains(q) <==> c0.graph.predecessors@[*df_index]@.contains(q) by {
                if c0.graph.predecessors@[*df_index]@.contains(q) { assert(vf_ps.to_set().contains(q)); assert(vf_ps.contains(q)); }
                if phi_node.incoming@.contains_key(q) { let j = choose|j: int| 0 <= j < vf_ps.len() && #[trigger] vf_ps[j] == q; assert(vf_ps.contains(q)); assert(vf_ps.to_set().contains(q)); }
            }
        }
    }
//@ before 0 `let cfg = function.control_flow_graph_mut();`
    proof {
        assert(phi_ok(c0, entry, *df_index, phi_node));
    }
//@ after 0 `df_block.add_phi_node(phi_node);`
    proof {
        lemma_phis_added_step(f0, f1, *function, entry, *df_index, phi_node);
        lemma_new_phi_step(f0, f1, *function, entry, *df_index, phi_node);
        assert(!new_phi_for(f0, f1, *df_index, scalar));
    }
//@ after 0 `phi_insertions.insert(*df_index);`
    proof {
        vstd::set_lib::lemma_len_subset(phi_insertions@, c0.graph.vertices@.dom());
        lemma_work_insert(defs@, vf_ins1, vf_q1, block_index, *df_index, df);
        assert(phi_insertions@ =~= vf_ins1.insert(*df_index));
    }
//@ after 0 `queue.push_back(*df_index); } }`
    proof {
        // all frontier blocks listed so far are served; at the last one the whole frontier is
        assert forall|j: int| 0 <= j < vf_j3 + 1 implies phi_insertions@.contains(*(#[trigger] vf_it3.seq()[j])) by {
            if j < vf_j3 { assert(vf_ins1.contains(*vf_it3.seq()[j])); }
        }
        assert(vf_j3 + 1 == vf_it3.seq().len() ==> (forall|d: usize| #![trigger df_has(df, block_index, d)] df_has(df, block_index, d) ==> phi_insertions@.contains(d))) by {
            if vf_j3 + 1 == vf_it3.seq().len() {
                assert forall|d: usize| #![trigger df_has(df, block_index, d)] df_has(df, block_index, d) implies phi_insertions@.contains(d) by {
                    let j = choose|j: int| 0 <= j < vf_it3.seq().len() && *(#[trigger] vf_it3.seq()[j]) == d;
                    assert(phi_insertions@.contains(*vf_it3.seq()[j]));
                }
            }
        }
    }
//@ after 0 `queue.push_back(*df_index); } } }`
    proof {
        lemma_work_done(defs@, phi_insertions@, queue@, block_index, df);
        gq = queue@;
    }
//@ after 0 `queue.push_back(*df_index); } } } }`
    proof {
        assert(queue@ =~= Seq::<usize>::empty());
        lemma_work_finished(f0, *function, defs@, phi_insertions@, df, scalar);
        assert(scalar_done(f0, *function, df, scalar));
        assert forall|i: int| 0 <= i < vf_n implies scalar_done(f0, *function, df, (#[trigger] vf_iv[i]).0) by {
            assert(vf_iv[i].0 != vf_iv[vf_n].0);
            assert(same_phis_for(f0, fs, *function, vf_iv[i].0));
            lemma_same_phis_done(f0, fs, *function, df, vf_iv[i].0);
        }
        assert forall|k: usize, s: il::Scalar| #![trigger new_phi_for(f0, *function, k, s)] new_phi_for(f0, *function, k, s) implies key_listed(vf_iv, vf_n + 1, s) by {
            if s != scalar { assert(new_phi_for(f0, fs, k, s)); assert(key_listed(vf_iv, vf_n, s)); }
        }
    }
//@ before 0 `Ok(()) }`
    proof {
        lemma_phis_added_wf(f0, *function, entry);
        assert forall|s: il::Scalar| #[trigger] scalar_done(f0, *function, df, s) by {
            if key_listed(vf_iv, vf_iv.len() as int, s) {
                let i = choose|i: int| 0 <= i < vf_iv.len() && (#[trigger] vf_iv[i]).0 == s;
                assert(scalar_done(f0, *function, df, vf_iv[i].0));
            } else {
                assert forall|k: usize| #![trigger new_phi_for(f0, *function, k, s)] !new_phi_for(f0, *function, k, s) by {}
                assert forall|b: usize| #![trigger mutated_at(c0, s, b)] !mutated_at(c0, s, b) by {}
            }
        }
        assert(frontier_table(c0.graph, entry, dominance_frontiers) && forall|s: il::Scalar| #[trigger] scalar_done(f0, *function, dominance_frontiers@, s));
    }
//@ end
