// Unit C10 - SSA transformation (lib/transformation/ssa_transformation.rs, lib/il/phi_node.rs).
// PART A (this file, Verus): ScalarVersioning, scalars_mutated_in_block(s), compute_non_local_scalars, insert_phi_nodes,
// il::PhiNode accessors.  PART B (witness/src/bin/c10_witness.rs, BOUNDED): the renaming pass and the composition.
// Generated file = this template + the real text of the items named in the `//@` holes.
#![feature(allocator_api)]
#![allow(unused_imports, unused_variables, dead_code, unused_mut, non_snake_case, unused_parens, unused_braces, deprecated)]
use vstd::prelude::*;
use vstd::arithmetic::power2::*;
use vstd::arithmetic::div_mod::*;
use vstd::arithmetic::mul::*;
use std::ops::*;
use std::cmp;
use std::cmp::Ordering;
use std::collections::{BTreeMap, BTreeSet, VecDeque};
use std::fmt;
use std::rc::Rc;

verus! {

//@ include spec/bv.rs
//@ include prelude/bigint.rs
//@ include prelude/error.rs
//@ include prelude/fxhash.rs
//@ include prelude/stdcoll.rs
//@ include prelude/rc_asref.rs
//@ include prelude/scalar_hash.rs
//@ include prelude/hashmap_into_items.rs
//@ include prelude/opt_slice.rs
//@ include prelude/strmap.rs
//@ include prelude/strhash.rs
//@ include units/C11/error_from.rs

// falcon::RC (default build, feature "thread_safe" off): the real alias, extracted
//@ item lib/lib.rs :: type RC#0

pub mod graph {
use super::*;
use vstd::std_specs::iter::IteratorSpec;
use rustc_hash::{FxHashMap, FxHashSet};
broadcast use {rustc_hash::axiom_fx_builds_valid_hashers, stdcoll::axiom_btreemap_index_req, stdcoll::axiom_hashmap_index_req, stdcoll::axiom_usize_pair_obeys_key_model};
//@ mode contracts-only C11
//@ include units/C11/graph_core.rs
//@ include units/C11/graph_trav.rs
//@ include units/C11/graph_dom.rs
//@ mode full
proof fn vf_canary_graph() ensures false { /* padding: tools/verdict.py compares rustc byte offsets with Python character offsets; non-ASCII characters in shared files shift spans by a few bytes, this keeps the shifted span inside the canary ........................................................................ */ }
} // mod graph

pub mod il {
use super::*;
use vstd::std_specs::iter::IteratorSpec;
// il::ProgramLocation (lib/il/location.rs) is only a payload of falcon::Error here: opaque stand-in
#[verifier::external_body] pub struct ProgramLocation { _p: () }
//@ mode contracts-only C15
//@ include units/C15/il_core.rs
//@ mode full
//@ include units/C10/il_scalars.rs
proof fn vf_canary_il() ensures false { /* padding: tools/verdict.py compares rustc byte offsets with Python character offsets; non-ASCII characters in shared files shift spans by a few bytes, this keeps the shifted span inside the canary ........................................................................ */ }
} // mod il

pub mod transformation {
use super::*;
use super::il;
use super::graph::*;
use super::strhash::string_of;
use std::collections::{HashMap, HashSet, VecDeque};
use vstd::std_specs::iter::IteratorSpec;
use rustc_hash::{FxHashMap, FxHashSet};
broadcast use {rustc_hash::axiom_fx_builds_valid_hashers, stdcoll::axiom_hashmap_index_req, scalar_hash::axiom_scalar_obeys_key_model, strhash::axiom_ref_obeys_key_model, strhash::axiom_string_obeys_key_model, strhash::axiom_string_of, strmap::axiom_string_ext, vstd::std_specs::hash::axiom_random_state_builds_valid_hashers};
//@ include units/C10/ssa_versioning.rs
//@ include units/C10/ssa_phi.rs
//@ include units/C10/ssa_client.rs
proof fn vf_canary_transformation() ensures false { /* padding: see vf_canary_root ................................................................................................................................................................................................ */ }
} // mod transformation

proof fn vf_canary_root() ensures false { /* padding: tools/verdict.py compares rustc byte offsets with Python character offsets; non-ASCII characters in shared files shift spans by a few bytes, this keeps the shifted span inside the canary ........................................................................ */ }

} // verus!

fn main() {}
