// ======================================================================================
// units/C10/il_scalars.rs - il functions the SSA transformation calls which no other READY unit has under
// contract.  REAL text, extracted; proved in THIS unit.
// To be included inside `pub mod il` after units/C15/il_core.rs.
// ======================================================================================

// ---- derive(Eq, Hash) on il::Scalar re-supplied.  ASSUMED, same reading as units C04 / C13 / C15 / C18: derive =
// structural equality; `Hash` is opaque (its lawfulness is the key-model axiom of prelude/scalar_hash.rs).
impl Eq for Scalar {}
impl std::hash::Hash for Scalar {
    #[verifier::external_body]
    fn hash<H: std::hash::Hasher>(&self, state: &mut H) { unimplemented!() }
}

// ---------------------------------------------------------------------------------------------
// spec vocabulary: the scalars an operation reads / writes

/// the scalars of a list of expressions, in order, with repetitions
pub open spec fn exprs_scalars(es: Seq<Expression>) -> Seq<Scalar>
    decreases es.len(),
{
    if es.len() == 0 { Seq::<Scalar>::empty() } else { exprs_scalars(es.drop_last()) + expr_scalars(es.last()) }
}

pub proof fn lemma_exprs_scalars_step(es: Seq<Expression>, n: int)
    requires 0 <= n < es.len(),
    ensures exprs_scalars(es.take(n + 1)) == exprs_scalars(es.take(n)) + expr_scalars(es[n]),
{
    assert(es.take(n + 1).drop_last() =~= es.take(n));
    assert(es.take(n + 1).last() == es[n]);
}

/// the references of `v` point to the scalars `ss`
pub open spec fn refs_are(v: Seq<&Scalar>, ss: Seq<Scalar>) -> bool {
    v.len() == ss.len() && forall|i: int| 0 <= i < v.len() ==> *(#[trigger] v[i]) == ss[i]
}

pub open spec fn opt_exprs_scalars(o: Option<Vec<Expression>>) -> Option<Seq<Scalar>> {
    match o { None => None, Some(v) => Some(exprs_scalars(v@)) }
}

/// the scalars an operation writes; None = an intrinsic that does not declare them
pub open spec fn op_writes(o: Operation) -> Option<Seq<Scalar>> {
    match o {
        Operation::Assign { dst, src } => Some(seq![dst]),
        Operation::Load { dst, index } => Some(seq![dst]),
        Operation::Store { index, src } => Some(Seq::<Scalar>::empty()),
        Operation::Branch { target } => Some(Seq::<Scalar>::empty()),
        Operation::Intrinsic { intrinsic } => opt_exprs_scalars(intrinsic.written_expressions),
        Operation::Nop { placeholder } => Some(Seq::<Scalar>::empty()),
    }
}

/// the scalars an operation reads, in evaluation order; None = an intrinsic that does not declare them
pub open spec fn op_reads(o: Operation) -> Option<Seq<Scalar>> {
    match o {
        Operation::Assign { dst, src } => Some(expr_scalars(src)),
        Operation::Store { index, src } => Some(expr_scalars(index) + expr_scalars(src)),
        Operation::Load { dst, index } => Some(expr_scalars(index)),
        Operation::Branch { target } => Some(expr_scalars(target)),
        Operation::Intrinsic { intrinsic } => opt_exprs_scalars(intrinsic.read_expressions),
        Operation::Nop { placeholder } => Some(Seq::<Scalar>::empty()),
    }
}

pub open spec fn opt_refs_are(r: Option<Vec<&Scalar>>, s: Option<Seq<Scalar>>) -> bool {
    match s { None => r is None, Some(ss) => (r matches Some(v) && refs_are(v@, ss)) }
}

// ---------------------------------------------------------------------------------------------
impl Intrinsic {
//@ source lib/il/intrinsic.rs
//@ fn impl Intrinsic :: fn written_expressions
//@ rewrite 1 `self.written_expressions.as_deref()` => `opt_slice::opt_vec_as_slice(&self.written_expressions)` ## R-as-deref: the same conversion through a stand-in carrying the assumed contract of Option<Vec<T>>::as_deref (prelude/opt_slice.rs)
//@ spec
    ensures
        /*@none*/ self.written_expressions is None ==> r is None,
        /*@some*/ self.written_expressions matches Some(v) ==> (r matches Some(s) && s@ == v@),
//@ end

//@ fn impl Intrinsic :: fn read_expressions
//@ rewrite 1 `self.read_expressions.as_deref()` => `opt_slice::opt_vec_as_slice(&self.read_expressions)` ## R-as-deref: the same conversion through a stand-in carrying the assumed contract of Option<Vec<T>>::as_deref (prelude/opt_slice.rs)
//@ spec
    ensures
        /*@none*/ self.read_expressions is None ==> r is None,
        /*@some*/ self.read_expressions matches Some(v) ==> (r matches Some(s) && s@ == v@),
//@ end

//@ fn impl Intrinsic :: fn scalars_written
//@ rewrite 1 `written_expressions .iter() .flat_map(|expression| expression.scalars()) .collect::<Vec<&Scalar>>()` => `{ let mut vf_out: Vec<&Scalar> = Vec::new(); for expression in vf_it: written_expressions.iter() { let mut vf_part = expression.scalars(); vf_out.append(&mut vf_part); } vf_out }` ## R-flat-map-collect: `ITER.flat_map(|x| F).collect::<Vec<_>>()` is by definition the vector that receives, for every item x of ITER in order, all items of F in order; `expression.scalars()` is the original F
//@ closure 0 |written_expressions: &[Expression]| -> (o: Vec<&Scalar>)
    ensures refs_are(o@, exprs_scalars(written_expressions@)),
//@ spec
    ensures
        /*@spec*/ opt_refs_are(r, opt_exprs_scalars(self.written_expressions)),
//@ loop 0
    invariant
        vf_it.seq().len() == written_expressions@.len(),
        forall|j: int| 0 <= j < vf_it.seq().len() ==> *(#[trigger] vf_it.seq()[j]) == written_expressions@[j],
        refs_are(vf_out@, exprs_scalars(written_expressions@.take(vf_it.index@ as int))),
//@ before 0 `let mut vf_part`
    proof { lemma_exprs_scalars_step(written_expressions@, vf_it.index@ as int); }
//@ before 0 `vf_out }`
    proof { assert(written_expressions@.take(written_expressions@.len() as int) =~= written_expressions@); }
//@ end

//@ fn impl Intrinsic :: fn scalars_read
//@ rewrite 1 `read_expressions .iter() .flat_map(|expression| expression.scalars()) .collect::<Vec<&Scalar>>()` => `{ let mut vf_out: Vec<&Scalar> = Vec::new(); for expression in vf_it: read_expressions.iter() { let mut vf_part = expression.scalars(); vf_out.append(&mut vf_part); } vf_out }` ## R-flat-map-collect: `ITER.flat_map(|x| F).collect::<Vec<_>>()` is by definition the vector that receives, for every item x of ITER in order, all items of F in order; `expression.scalars()` is the original F
//@ closure 0 |read_expressions: &[Expression]| -> (o: Vec<&Scalar>)
    ensures refs_are(o@, exprs_scalars(read_expressions@)),
//@ spec
    ensures
        /*@spec*/ opt_refs_are(r, opt_exprs_scalars(self.read_expressions)),
//@ loop 0
    invariant
        vf_it.seq().len() == read_expressions@.len(),
        forall|j: int| 0 <= j < vf_it.seq().len() ==> *(#[trigger] vf_it.seq()[j]) == read_expressions@[j],
        refs_are(vf_out@, exprs_scalars(read_expressions@.take(vf_it.index@ as int))),
//@ before 0 `let mut vf_part`
    proof { lemma_exprs_scalars_step(read_expressions@, vf_it.index@ as int); }
//@ before 0 `vf_out }`
    proof { assert(read_expressions@.take(read_expressions@.len() as int) =~= read_expressions@); }
//@ end
}

impl Operation {
//@ source lib/il/operation.rs
//@ fn impl Operation :: fn scalars_read
//@ rewrite 1 `Some(index.scalars().into_iter().chain(src.scalars()).collect())` => `Some({ let mut vf_a = index.scalars(); let mut vf_b = src.scalars(); vf_a.append(&mut vf_b); vf_a })` ## R-chain-collect: `A.into_iter().chain(B).collect::<Vec<_>>()` is by definition the vector holding the items of A followed by the items of B; A = `index.scalars()` and B = `src.scalars()` are the original expressions, evaluated in the original order
//@ spec
    ensures
        /*@spec*/ opt_refs_are(r, op_reads(*self)),
//@ end

//@ fn impl Operation :: fn scalars_written
//@ spec
    ensures
        /*@spec*/ opt_refs_are(r, op_writes(*self)),
//@ end
}

impl Instruction {
//@ source lib/il/instruction.rs
//@ fn impl Instruction :: fn scalars_written
//@ spec
    ensures
        /*@spec*/ opt_refs_are(r, op_writes(self.operation)),
//@ end

//@ fn impl Instruction :: fn scalars_read
//@ spec
    ensures
        /*@spec*/ opt_refs_are(r, op_reads(self.operation)),
//@ end
}

// ---------------------------------------------------------------------------------------------
// il::PhiNode

impl PhiNode {
//@ source lib/il/phi_node.rs
//@ fn impl PhiNode :: fn new
//@ spec
    ensures
        /*@fields*/ r.out == out && r.entry is None && r.incoming@ == Map::<usize, Scalar>::empty(),
//@ end

//@ fn impl PhiNode :: fn add_incoming
//@ spec
    ensures
        /*@inserted*/ final(self).incoming@ == old(self).incoming@.insert(block_index, src),
        /*@frame*/ final(self).out == old(self).out && final(self).entry == old(self).entry,
//@ end

//@ fn impl PhiNode :: fn incoming_scalar
//@ spec
    ensures
        /*@found*/ self.incoming@.contains_key(block_index) ==> r == Some(&self.incoming@[block_index]),
        /*@missing*/ !self.incoming@.contains_key(block_index) ==> r is None,
//@ end

//@ fn impl PhiNode :: fn incoming_scalar_mut
//@ spec
    ensures
        /*@found*/ old(self).incoming@.contains_key(block_index) ==> (r matches Some(s) && *s == old(self).incoming@[block_index]
            && final(self).incoming@ == old(self).incoming@.insert(block_index, *final(s))),
        /*@missing*/ !old(self).incoming@.contains_key(block_index) ==> r is None && final(self).incoming@ == old(self).incoming@,
        /*@frame*/ final(self).out == old(self).out && final(self).entry == old(self).entry,
//@ end

//@ fn impl PhiNode :: fn set_entry_scalar
//@ spec
    ensures
        /*@set*/ final(self).entry == Some(src),
        /*@frame*/ final(self).out == old(self).out && final(self).incoming == old(self).incoming,
//@ end

//@ fn impl PhiNode :: fn entry_scalar
//@ spec
    ensures
        /*@some*/ (r is Some) == (self.entry is Some),
        /*@value*/ r matches Some(s) ==> *s == self.entry->0,
//@ end

//@ fn impl PhiNode :: fn entry_scalar_mut
//@ spec
    ensures
        /*@some*/ (r is Some) == (old(self).entry is Some),
        /*@value*/ r matches Some(s) ==> *s == old(self).entry->0 && final(self).entry == Some(*final(s)),
        /*@none*/ r is None ==> final(self).entry is None,
        /*@frame*/ final(self).out == old(self).out && final(self).incoming == old(self).incoming,
//@ end

//@ fn impl PhiNode :: fn out
//@ spec
    ensures /*@field*/ *r == self.out,
//@ end

//@ fn impl PhiNode :: fn out_mut
//@ spec
    ensures
        /*@field*/ *r == old(self).out && final(self).out == *final(r),
        /*@frame*/ final(self).incoming == old(self).incoming && final(self).entry == old(self).entry,
//@ end
}

// ---------------------------------------------------------------------------------------------
// the three mutators insert_phi_nodes goes through (Block::add_phi_node and ControlFlowGraph::block_mut are also
// under contract in unit C15; re-proved here from the same text so that this unit only imports C15's il_core.rs)

impl Block {
//@ source lib/il/block.rs
//@ fn impl Block :: fn add_phi_node
//@ spec
    ensures
        /*@pushed*/ final(self).phi_nodes@ == old(self).phi_nodes@.push(phi_node),
        /*@frame*/ final(self).index == old(self).index && final(self).next_instruction_index == old(self).next_instruction_index && final(self).instructions == old(self).instructions,
//@ end
}

impl ControlFlowGraph {
//@ source lib/il/control_flow_graph.rs
//@ fn impl ControlFlowGraph :: fn block_mut
//@ spec
    ensures
        /*@found*/ old(self).has_block(index) ==> (r matches Ok(b) && *b == old(self).graph.vertices@[index]
            && final(self).graph.vertices@ == old(self).graph.vertices@.insert(index, *final(b))),
        /*@missing*/ !old(self).has_block(index) ==> (r matches Err(e) && e == Error::GraphVertexNotFound(index)) && final(self).graph.vertices@ == old(self).graph.vertices@,
        /*@frame*/ final(self).graph.edges == old(self).graph.edges && final(self).graph.successors == old(self).graph.successors
            && final(self).graph.predecessors == old(self).graph.predecessors && final(self).next_index == old(self).next_index
            && final(self).next_temp_index == old(self).next_temp_index && final(self).entry == old(self).entry
            && final(self).exit == old(self).exit && final(self).ssa_form == old(self).ssa_form,
//@ end
}

impl Function {
//@ source lib/il/function.rs
//@ fn impl Function :: fn control_flow_graph_mut
//@ spec
    ensures
        /*@field*/ *r == old(self).control_flow_graph && final(self).control_flow_graph == *final(r),
        /*@frame*/ final(self).address == old(self).address && final(self).name == old(self).name && final(self).index == old(self).index,
//@ end
}
