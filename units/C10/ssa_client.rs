// ======================================================================================
// units/C10/ssa_client.rs - client smoke tests of the ScalarVersioning contracts (template code, verified):
// what the renaming pass relies on, derived from the per-method contracts alone.
// ======================================================================================

/// two calls of new_version never return the same (name, version) pair, whatever happens in between with scopes
fn client_versions_are_fresh(a: &il::Scalar, b: &il::Scalar)
{
    let mut v = ScalarVersioning::new();
    v.start_new_scope();
    assert(v.next_of(a.name@) == 1 && v.next_of(b.name@) == 1);
    let x1 = v.new_version(a);
    assert(x1 == 1);
    assert(v.next_of(a.name@) == 2);
    assert(b.name@ != a.name@ ==> v.next_of(b.name@) == 1);
    v.start_new_scope();
    assert(v.next_of(a.name@) == 2);
    assert(v.next_of(b.name@) == (if b.name@ == a.name@ { 2nat } else { 1nat }));
    let x2 = v.new_version(b);
    v.end_scope();
    assert(v.next_of(a.name@) == (if b.name@ == a.name@ { 3nat } else { 2nat }));
    let x3 = v.new_version(a);
    assert(a.name@ == b.name@ ==> x1 != x2);
    assert(x1 != x3);
    assert(a.name@ == b.name@ ==> x2 != x3);
    assert(x1 == 1);
}

/// leaving a scope restores what get_version answered before the scope was entered (dominator-tree siblings do not
/// see each other's versions); versions issued in the inner scope stay issued
fn client_scopes_restore(a: &il::Scalar, b: &il::Scalar)
    requires a.name@ != b.name@,
{
    let mut v = ScalarVersioning::new();
    v.start_new_scope();
    assert(v.next_of(b.name@) == 1);
    let x1 = v.new_version(a);
    assert(v.next_of(b.name@) == 1);
    let before_a = v.get_version(a);
    let before_b = v.get_version(b);
    assert(before_a == Some(x1));
    v.start_new_scope();
    let inside = v.get_version(a);
    assert(inside == Some(x1));           // the inner scope starts as a copy of the enclosing one
    assert(v.next_of(b.name@) == 1);
    let x2 = v.new_version(a);
    assert(v.next_of(b.name@) == 1);
    let y = v.new_version(b);
    let inner_a = v.get_version(a);
    assert(inner_a == Some(x2));
    let ghost issued_inner = v;
    v.end_scope();
    let after_a = v.get_version(a);
    let after_b = v.get_version(b);
    assert(after_a == before_a);
    assert(after_b == before_b);
    assert(v.issued(a.name@, x2) && v.issued(b.name@, y));
    v.end_scope();
    let outside = v.get_version(a);
    assert(outside is None);
}
