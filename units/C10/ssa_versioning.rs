// ======================================================================================
// units/C10/ssa_versioning.rs - transformation::ssa_transformation::ScalarVersioning
// ======================================================================================
//@ source lib/transformation/ssa_transformation.rs
//@ item struct ScalarVersioning

impl ScalarVersioning {
    /// the next version number `new_version` will hand out for the name `n` (1 for a name never seen)
    pub open spec fn next_of(&self, n: Seq<char>) -> nat {
        if self.counter@.contains_key(string_of(n)) { self.counter@[string_of(n)] as nat } else { 1 }
    }

    /// THE GHOST SET OF ISSUED (name, version) PAIRS, as a function of the concrete state:
    /// the versions 1 .. next_of(n) - 1 of the name n have been handed out
    pub open spec fn issued(&self, n: Seq<char>, v: usize) -> bool {
        1 <= v && (v as nat) < self.next_of(n)
    }

    pub open spec fn depth(&self) -> int { self.scoped_versions@.len() as int }

    /// the i-th scope (0 = outermost) as a map from names to versions
    pub open spec fn scope(&self, i: int) -> Map<String, usize> { self.scoped_versions@[i]@ }

    pub open spec fn lookup(m: Map<String, usize>, n: Seq<char>) -> Option<usize> {
        if m.contains_key(string_of(n)) { Some(m[string_of(n)]) } else { None }
    }

    /// what `get_version` answers for the name n: the innermost scope's entry, None outside every scope
    pub open spec fn current(&self, n: Seq<char>) -> Option<usize> {
        if self.depth() == 0 { None } else { Self::lookup(self.scope(self.depth() - 1), n) }
    }

    /// data invariant: counters start at 1; every version recorded in a scope has been issued
    pub open spec fn versioning_wf(&self) -> bool {
        &&& forall|k: String| #![trigger self.counter@[k]] self.counter@.contains_key(k) ==> self.counter@[k] >= 1
        &&& forall|i: int, k: String| #![trigger self.scope(i)[k]] 0 <= i < self.depth() && self.scope(i).contains_key(k) ==> self.issued(k@, self.scope(i)[k])
    }
}

impl ScalarVersioning {
//@ fn impl ScalarVersioning :: fn new
//@ spec
    ensures
        /*@empty*/ r.depth() == 0 && r.counter@ == Map::<String, usize>::empty(),
        /*@nothing_issued*/ forall|n: Seq<char>, v: usize| !r.issued(n, v),
        /*@wf*/ r.versioning_wf(),
//@ end

//@ fn impl ScalarVersioning :: fn start_new_scope
//@ spec
    requires old(self).versioning_wf(),
    ensures
        /*@pushed*/ final(self).depth() == old(self).depth() + 1,
        /*@below*/ forall|i: int| 0 <= i < old(self).depth() ==> final(self).scope(i) == old(self).scope(i),
        /*@copy*/ final(self).scope(old(self).depth()) == (if old(self).depth() == 0 { Map::<String, usize>::empty() } else { old(self).scope(old(self).depth() - 1) }),
        /*@current*/ forall|n: Seq<char>| final(self).current(n) == old(self).current(n),
        /*@counter*/ final(self).counter == old(self).counter,
        /*@wf*/ final(self).versioning_wf(),
//@ after 0 `self.scoped_versions.push(scope);`
    proof {
        let d = old(self).depth();
        assert forall|i: int, k: String| #![trigger self.scope(i)[k]] 0 <= i < self.depth() && self.scope(i).contains_key(k) implies self.issued(k@, self.scope(i)[k]) by {
            if i < d { assert(self.scope(i) == old(self).scope(i)); assert(old(self).issued(k@, old(self).scope(i)[k])); }
            else { assert(d > 0); assert(self.scope(i) == old(self).scope(d - 1)); assert(old(self).issued(k@, old(self).scope(d - 1)[k])); }
        }
    }
//@ end

//@ fn impl ScalarVersioning :: fn end_scope
//@ spec
    requires old(self).versioning_wf(),
    ensures
        /*@popped*/ final(self).depth() == (if old(self).depth() == 0 { 0 } else { old(self).depth() - 1 }),
        /*@below*/ forall|i: int| 0 <= i < final(self).depth() ==> final(self).scope(i) == old(self).scope(i),
        /*@counter*/ final(self).counter == old(self).counter,
        /*@wf*/ final(self).versioning_wf(),
//@ after 0 `self.scoped_versions.pop();`
    proof {
        assert forall|i: int, k: String| #![trigger self.scope(i)[k]] 0 <= i < self.depth() && self.scope(i).contains_key(k) implies self.issued(k@, self.scope(i)[k]) by {
            assert(self.scope(i) == old(self).scope(i)); assert(old(self).issued(k@, old(self).scope(i)[k]));
        }
    }
//@ end

//@ fn impl ScalarVersioning :: fn get_version
//@ rewrite 1 `versions.get(scalar.name())` => `strhash::hash_get_str(versions, scalar.name())` ## R-std-standin: `MAP.get(S)` with `S: &str` on a `HashMap<String, _>` replaced by the stand-in of prelude/strhash.rs (same map and key; the stand-in's body calls the real `get`)
//@ closure 0 |versions: &HashMap<String, usize>| -> (r0: Option<&usize>)
    ensures r0 == (if versions@.contains_key(string_of(scalar.name@)) { Some(&versions@[string_of(scalar.name@)]) } else { None::<&usize> }),
//@ spec
    ensures
        /*@answer*/ r == old(self).current(scalar.name@),
        /*@unchanged*/ *final(self) == *old(self),
//@ end

//@ fn impl ScalarVersioning :: fn new_version
//@ rewrite 1 `self.counter.entry(scalar.name().to_string()).or_insert(1)` => `strhash::hash_entry_or_insert(&mut self.counter, scalar.name().to_string(), 1)` ## R-std-standin: `MAP.entry(K).or_insert(V)` replaced by the stand-in of prelude/strhash.rs (same map, key and value; the stand-in's body calls the real `entry` / `or_insert`)
//@ spec
    requires
        old(self).versioning_wf(),
        old(self).depth() > 0,
        old(self).next_of(scalar.name@) < usize::MAX,
    ensures
        /*@fresh*/ !old(self).issued(scalar.name@, r),
        /*@recorded*/ final(self).issued(scalar.name@, r),
        /*@version*/ r as nat == old(self).next_of(scalar.name@) && final(self).next_of(scalar.name@) == r + 1,
        /*@others*/ forall|n: Seq<char>| n != scalar.name@ ==> final(self).next_of(n) == old(self).next_of(n),
        /*@monotone*/ forall|n: Seq<char>, v: usize| old(self).issued(n, v) ==> final(self).issued(n, v),
        /*@only*/ forall|n: Seq<char>, v: usize| final(self).issued(n, v) ==> old(self).issued(n, v) || (n == scalar.name@ && v == r),
        /*@current*/ final(self).current(scalar.name@) == Some(r),
        /*@current_others*/ forall|n: Seq<char>| n != scalar.name@ ==> final(self).current(n) == old(self).current(n),
        /*@depth*/ final(self).depth() == old(self).depth(),
        /*@below*/ forall|i: int| 0 <= i < old(self).depth() - 1 ==> final(self).scope(i) == old(self).scope(i),
        /*@wf*/ final(self).versioning_wf(),
//@ after 0 `versions.insert(scalar.name().to_string(), version);`
    proof {
        let d = old(self).depth();
        let key = string_of(scalar.name@);
        assert forall|k: String| #![trigger self.counter@[k]] self.counter@.contains_key(k) implies self.counter@[k] >= 1 by {
            if k != key { assert(old(self).counter@[k] >= 1); }
        }
        assert forall|i: int, k: String| #![trigger self.scope(i)[k]] 0 <= i < self.depth() && self.scope(i).contains_key(k) implies self.issued(k@, self.scope(i)[k]) by {
            if i < d - 1 || k != key {
                assert(old(self).scope(i).contains_key(k) && self.scope(i)[k] == old(self).scope(i)[k]);
                assert(old(self).issued(k@, old(self).scope(i)[k]));
            }
        }
    }
//@ end
}
