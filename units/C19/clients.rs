// ======================================================================================
// units/C19/clients.rs — TEMPLATE CODE (not from /repo): verified clients that load the SAME bytes twice,
// once at base 0 and once at base B, call the methods under contract on both loaders and state the
// RELATIONAL property "loading at base B reports every address exactly B higher than loading at base 0".
// They show that the per-call contracts (result == spec(parsed(bytes), ..., base)) and the rebasing lemmas
// compose to the two-run statement of the property.
// ======================================================================================

/// e0 and eb are two loaders for the same file (same bytes, same user entries), e0 at base 0
pub open spec fn same_file_base0(e0: &Elf, eb: &Elf) -> bool {
    e0.bytes@ == eb.bytes@ && e0.user_function_entries@ == eb.user_function_entries@ && e0.base_address == 0
}

pub fn rebase_program_entry(e0: &Elf, eb: &Elf) -> (r: (u64, u64))
    requires same_file_base0(e0, eb), eb.program_entry_req(),
    ensures /*@entry_shifted*/ r.1 == r.0 + eb.base_address,
{
    (e0.program_entry(), eb.program_entry())
}

pub fn rebase_function_entries(e0: &Elf, eb: &Elf) -> (r: (Vec<FunctionEntry>, Vec<FunctionEntry>))
    requires same_file_base0(e0, eb), eb.function_entries_req(),
    ensures
        // one list of (address, name) records describes both results: the base-0 result as it is, the base-B
        // result with every address + B (same length, same order, same names)
        /*@entries_shifted*/ ({
            let s = spec_entries(goblin::elf::parsed(e0.bytes@), e0.user_function_entries@, 0);
            entries_match(r.0@, s) && entries_match(r.1@, shift_entries(s, eb.base_address))
        }),
        /*@entries_pointwise*/ r.0@.len() == r.1@.len() && forall|i: int| 0 <= i < r.0@.len() ==>
            (#[trigger] r.1@[i]).address == r.0@[i].address + eb.base_address && (r.1@[i].name is None <==> r.0@[i].name is None),
{
    proof {
        // base 0 is well-formed whenever base B is
        let p = goblin::elf::parsed(e0.bytes@);
        assert(entries_wf(p, e0.user_function_entries@, 0)) by {
            assert(fn_syms_wf(p.dynsyms@, p.dynstrtab, 0));
            assert(fn_syms_wf(p.syms@, p.strtab, 0));
            assert(users_wf(e0.user_function_entries@, 0));
        }
    }
    let a = e0.function_entries();
    let b = eb.function_entries();
    proof {
        lemma_entries_rebase(goblin::elf::parsed(e0.bytes@), e0.user_function_entries@, eb.base_address);
    }
    (a.unwrap(), b.unwrap())
}

pub fn rebase_symbols(e0: &Elf, eb: &Elf) -> (r: (Vec<Symbol>, Vec<Symbol>))
    requires same_file_base0(e0, eb), eb.symbols_req(),
    ensures
        /*@symbols_shifted*/ views(r.1@) == shift_syms(views(r.0@), eb.base_address),
        /*@symbols_pointwise*/ r.0@.len() == r.1@.len() && forall|i: int| 0 <= i < r.0@.len() ==>
            (#[trigger] r.1@[i]).address == r.0@[i].address + eb.base_address && r.1@[i].name@ == r.0@[i].name@,
{
    proof {
        let p = goblin::elf::parsed(e0.bytes@);
        assert(symbols_wf(p, 0)) by {
            assert(value_syms_wf(p.dynsyms@, p.dynstrtab, 0));
            assert(value_syms_wf(p.syms@, p.strtab, 0));
            assert(plt_syms_wf(p.pltrelocs@, p.dynsyms@, p.dynstrtab, 0));
        }
    }
    let a = Loader::symbols(e0);
    let b = Loader::symbols(eb);
    proof {
        lemma_symbols_rebase(goblin::elf::parsed(e0.bytes@), eb.base_address);
        let v0 = views(a@);
        let vb = views(b@);
        assert(vb == shift_syms(v0, eb.base_address));
        assert forall|i: int| 0 <= i < a@.len() implies
            (#[trigger] b@[i]).address == a@[i].address + eb.base_address && b@[i].name@ == a@[i].name@ by {
            assert(vb[i] == sview(b@[i]) && v0[i] == sview(a@[i]));
            assert(vb[i] == shift_sym(v0[i], eb.base_address));
        }
    }
    (a, b)
}

pub fn rebase_memory(e0: &Elf, eb: &Elf) -> (r: (Result<Memory, Error>, Result<Memory, Error>))
    requires same_file_base0(e0, eb), eb.memory_req(),
    ensures
        /*@same_outcome*/ r.0 is Ok <==> r.1 is Ok,
        /*@memory_shifted*/ r.0 matches Ok(m0) ==> (r.1 matches Ok(mb) ==> mb.bytes() == shift_map(m0.bytes(), eb.base_address)),
{
    proof {
        let phs = goblin::elf::parsed(e0.bytes@).program_headers@;
        assert(segs_wf(phs, 0));
        if segs_in_file(e0.bytes@, phs) {
            lemma_image_rebase(e0.bytes@, phs, eb.base_address);
        }
    }
    (e0.memory(), eb.memory())
}

/// exported_symbols() is consistent with symbols(): every exported symbol is reported by symbols() with the
/// same name and the same (rebased) address
pub fn exported_are_symbols(e: &Elf) -> (r: (Vec<Symbol>, Vec<Symbol>))
    requires e.symbols_req(),
    ensures /*@subset*/ forall|i: int| 0 <= i < r.0@.len() ==> views(r.1@).contains(sview(#[trigger] r.0@[i])),
{
    proof {
        let p = goblin::elf::parsed(e.bytes@);
        assert(exported_wf(p.dynsyms@, p.dynstrtab, e.base_address)) by {
            assert forall|i: int| 0 <= i < p.dynsyms@.len() && is_exported(#[trigger] p.dynsyms@[i]) implies
                p.dynsyms@[i].st_value + e.base_address <= u64::MAX && p.dynstrtab.valid_at(p.dynsyms@[i].st_name) by {
                assert(p.dynsyms@[i].st_value != 0);
            }
        }
    }
    let x = e.exported_symbols();
    let s = e.symbols();
    proof {
        let p = goblin::elf::parsed(e.bytes@);
        assert forall|i: int| 0 <= i < x@.len() implies views(s@).contains(sview(#[trigger] x@[i])) by {
            assert(views(x@)[i] == sview(x@[i]));
            assert(exported_syms(p.dynsyms@, p.dynstrtab, e.base_address).contains(sview(x@[i])));
            lemma_exported_subset_symbols(p, e.base_address, sview(x@[i]));
        }
    }
    (x, s)
}
