// Unit C19 — loader::Elf: the memory image is exactly the PT_LOAD segments (file bytes, zero fill,
// R/W/X), function entries / symbols / program entry are rebased uniformly by the base address; loader::ElfLinker: the
// relocation passes (i386, MIPS) over the whole content view of the linked memory and `impl Loader for ElfLinker`
// (units/C19/link_spec.rs, linker.rs; file system / recursion of load_elf: bounded enumerator only).
// Generated file = this template + the real text of the functions named in the `//@` holes.
#![feature(allocator_api)]
#![allow(unused_imports, unused_variables, dead_code, unused_mut, non_snake_case, unused_parens, unused_braces)]
use vstd::prelude::*;
use vstd::arithmetic::power2::*;
use vstd::arithmetic::div_mod::*;
use vstd::arithmetic::mul::*;
use std::ops::*;
use std::cmp::Ordering;

// log::warn! (third-party crate `log`, used by lib/loader/elf/elf_linker.rs): logging has no effect on the program
// state; the stand-in expands to nothing (its arguments are not evaluated - they are plain variable reads).
macro_rules! warn { ($($t:tt)*) => { } }

verus! {

//@ include spec/bv.rs
//@ include prelude/bigint.rs
//@ include prelude/error.rs
//@ include prelude/btree_range.rs
//@ include prelude/strmap.rs
//@ include prelude/goblin_elf.rs
//@ include units/C19/std_local.rs
//@ include units/C19/link_std.rs

// derive(Debug) of falcon::Error re-supplied (needed by `Result::unwrap`'s trait bound only; the
// formatter output is never inspected by verified code): opaque, no contract.
impl std::fmt::Debug for Error {
    #[verifier::external_body]
    fn fmt(&self, f: &mut std::fmt::Formatter<'_>) -> std::fmt::Result { unimplemented!() }
}

// ---- il::Constant / il::Expression / executor::eval: contracts imported from unit C04 ---------
// (needed only because unit C16's contracts for backing::Memory::get mention them)
pub mod il {
use super::*;
broadcast use {axiom_biguint_ext, axiom_bigint_ext};
#[verifier::external_body] pub struct ProgramLocation { _p: () }

//@ mode contracts-only C04
//@ include units/C04/constant.rs
//@ include units/C04/expression.rs
//@ mode full

proof fn vf_canary_il() ensures false {}
} // mod il

pub mod executor {
use super::*;
use super::il::*;
//@ mode contracts-only C04
//@ include units/C04/eval.rs
//@ mode full
} // mod executor

pub mod architecture {
use super::*;
//@ item lib/architecture.rs :: enum Endian

// lib/architecture.rs declares `pub trait Architecture: Debug + Send + Sync` with seven required
// methods; the loader code under contract calls exactly one of them, `endian()`.  The trait is
// restated with that method only (same executable signature) and a specification function naming
// its result, so that "the memory has the endianness of the loader's architecture" can be stated.
// Which architecture object `Elf::new` selects for which header is NOT part of this unit.
pub trait Architecture {
    spec fn spec_endian(&self) -> Endian;

    fn endian(&self) -> (r: Endian)
        ensures r == self.spec_endian();
}
} // mod architecture

pub mod translator {
use super::*;
use crate::memory::MemoryPermissions;
//@ include units/C16/translation_memory.rs
} // mod translator

pub mod memory {
use super::*;

//@ include units/C19/permissions.rs

pub mod backing {
use vstd::prelude::*;
use vstd::arithmetic::power2::*;
use vstd::arithmetic::div_mod::*;
use vstd::arithmetic::mul::*;
use crate::*;
use crate::il::{MAX_BITS, EvalR, Env, BinOp, eval_spec, empty_env, expr_bits, expr_sane, eval_agrees, is_const, is_sort_err, is_div0_err, ctor2, bin_spec, bin_val};
// the `use` lines of lib/memory/backing.rs (serde omitted: derives are dropped)
use crate::architecture::Endian;
use crate::executor;
use crate::il;
use crate::memory::MemoryPermissions;
use crate::translator::TranslationMemory;
use crate::Error;
use std::collections::BTreeMap;
use std::ops::Bound::Included;
#[allow(unused_imports)]
use std::ops::Bound::{Excluded, Unbounded};

// ---- memory::backing::{Section, Memory}: contracts imported from unit C16 -----------------------
//@ include units/C16/bytes_spec.rs
//@ include units/C16/get_spec.rs
//@ mode contracts-only C16
//@ include units/C16/backing.rs
//@ mode full

// derive(Clone) of backing::Memory / backing::Section re-supplied (the linker's `memory()` returns `self.memory.clone()`):
// compiler-generated field-wise clone: same byte order; BTreeMap::clone keeps the keys, and Section's derived clone
// keeps the bytes (Vec<u8>::clone) and the permissions (Copy).  ASSUMED, listed in the evidence.
/// two section maps with the same keys and, per key, the same bytes and permissions
pub open spec fn same_content(s0: SecMap, s1: SecMap) -> bool {
    forall|k: u64| #![trigger s1.contains_key(k)] #![trigger s0.contains_key(k)]
        s1.contains_key(k) == s0.contains_key(k)
        && (s0.contains_key(k) ==> s1[k].data@ == s0[k].data@ && s1[k].permissions == s0[k].permissions)
}
impl Clone for Memory {
    #[verifier::external_body]
    fn clone(&self) -> (r: Memory)
        ensures r.endian == self.endian, same_content(self.sections@, r.sections@),
    { unimplemented!() }
}

proof fn vf_canary_backing() ensures false {}
} // mod backing
} // mod memory

pub mod loader {
use vstd::prelude::*;
use crate::*;
use crate::goblin_elf as goblin;
use crate::strmap::*;
use crate::c19_std::*;
use crate::c19_link_std::*;
use vstd::arithmetic::power2::*;
use std::path::{Path, PathBuf};
// the `use` lines of lib/loader/mod.rs and lib/loader/elf/elf.rs that the code under contract needs
use crate::architecture::*;
use crate::memory;
use crate::memory::backing::Memory;
use crate::memory::backing::{write_map, bytes_of, vw, sections_wf, SecMap, covers, within32, w32_byte, endian_value, bytes_at, all_mapped, lemma_vw_some, lemma_vw_inv, lemma_vw_none, same_content, lemma_value_bound, lemma_value4};
use crate::memory::MemoryPermissions;
use crate::Error;
use std::collections::BTreeMap;

broadcast use {axiom_into_string_str, axiom_string_key_obeys_cmp_spec};

//@ include units/C19/loader_types.rs
//@ include units/C19/order_spec.rs
//@ include units/C19/image_spec.rs
//@ include units/C19/entries_spec.rs
//@ include units/C19/symbols_spec.rs
//@ include units/C19/elf.rs
//@ include units/C19/clients.rs
//@ include units/C19/link_spec.rs
//@ include units/C19/linker.rs

proof fn vf_canary_loader() ensures false {}
} // mod loader
proof fn vf_canary_root() ensures false {}

} // verus!

fn main() {}
