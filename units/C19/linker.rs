// ======================================================================================
// units/C19/linker.rs — lib/loader/elf/elf_linker.rs under contract: the relocation passes
// ElfLinker::{relocations_x86, relocations_mips (+ its nested get_dynamic)}, ElfLinker::{loaded, add_user_function} and
// `impl Loader for ElfLinker`::{memory, function_entries, program_entry, architecture, symbols}; `From<&str>` / `From<String>`
// for Error (lib/lib.rs).  Specifications: units/C19/link_spec.rs; stand-ins: units/C19/link_std.rs.
// NOT under contract (bounded enumerator only, see meta.json): ElfLinker::{new, load_elf} (file system, recursion over
// DT_NEEDED, construction of the symbol table), get_elf / get_interpreter / filename, ElfLinkerBuilder.
// The anchors and rewrite patterns are chosen so that the template assembles on /repo HEAD ce11290 both with and without
// proposed_fix_4..6.diff (on the unfixed tree relocations_x86.invariant.prefix and relocations_mips.invariant.rel_prefix fail).
// ======================================================================================
//@ source lib/loader/elf/elf_linker.rs
//@ item struct ElfLinker
//@ item const DT_MIPS_LOCAL_GOTNO
//@ item const DT_MIPS_GOTSYM
//@ item const DT_MIPS_SYMTABNO

// ---- falcon::Error conversions used through `?` (`.ok_or("...")?`, `.ok_or(format!(..))?`), extracted from lib/lib.rs.
// The contract only says which variant comes out (the text itself is never inspected by verified code).
impl vstd::std_specs::convert::FromSpecImpl<&str> for Error {
    open spec fn obeys_from_spec() -> bool { false }
    open spec fn from_spec(v: &str) -> Error { arbitrary() }
}
impl From<&str> for Error {
//@ fn lib/lib.rs :: impl From<&str> for Error :: fn from nopub
//@ spec
    ensures /*@custom*/ r is Custom,
//@ end
}
impl vstd::std_specs::convert::FromSpecImpl<String> for Error {
    open spec fn obeys_from_spec() -> bool { false }
    open spec fn from_spec(v: String) -> Error { arbitrary() }
}
impl From<String> for Error {
//@ fn lib/lib.rs :: impl From<String> for Error :: fn from nopub
//@ spec
    ensures /*@custom*/ r is Custom,
//@ end
}
//@ source lib/loader/elf/elf_linker.rs

impl ElfLinker {
    /// the loaded object called `name`
    pub open spec fn obj(&self, name: Seq<char>) -> Elf { by_name(self.loaded@)[name] }

    /// the relocation entries the i386 pass walks, in its order: .rela.dyn, .rel.dyn, .rel.plt
    pub open spec fn x86_relocs(&self, name: Seq<char>) -> Seq<Reloc> {
        let p = goblin::elf::parsed(self.obj(name).bytes@);
        p.dynrelas@ + p.dynrels@ + p.pltrelocs@
    }

    /// what the property demands of the i386 pass over object `name`, from the current content and symbol table
    pub open spec fn x86_result(&self, name: Seq<char>) -> RunState {
        let p = goblin::elf::parsed(self.obj(name).bytes@);
        x86_run(self.memory.sections@, self.memory.endian, by_name(self.symbols@), p.dynsyms@, p.dynstrtab,
            self.obj(name).base_address, self.memory.bytes(), self.x86_relocs(name))
    }

    /// "well-formed object" for the i386 pass (see x86_reloc_wf / x86_run_fits in link_spec.rs)
    pub open spec fn x86_req(&self, name: Seq<char>) -> bool {
        let p = goblin::elf::parsed(self.obj(name).bytes@);
        &&& self.memory.wf()
        &&& by_name(self.loaded@).contains_key(name)
        &&& self.obj(name).wf()
        &&& x86_relocs_wf(self.memory.bytes(), p.dynsyms@, p.dynstrtab, self.obj(name).base_address, self.x86_relocs(name))
        &&& x86_run_fits(self.memory.sections@, self.memory.endian, by_name(self.symbols@), p.dynsyms@, p.dynstrtab,
                self.obj(name).base_address, self.memory.bytes(), self.x86_relocs(name))
    }

    /// everything but the memory
    pub open spec fn same_but_memory(&self, o: &ElfLinker) -> bool {
        &&& self.filename == o.filename
        &&& self.loaded == o.loaded
        &&& self.symbols == o.symbols
        &&& self.next_lib_address == o.next_lib_address
        &&& self.user_functions == o.user_functions
        &&& self.do_relocations == o.do_relocations
        &&& self.just_interpreter == o.just_interpreter
        &&& self.ld_paths == o.ld_paths
    }

//@ fn impl ElfLinker :: fn relocations_x86 loops=1
//@ attr #[verifier::rlimit(80)]
//@ rewrite 1 `let elf = &self.loaded[filename];` => `let elf = btree_index_str(&self.loaded, filename);` ## R-std-standin: `&MAP[name]` on a BTreeMap<String, _> with a &str, through the stand-in of units/C19/link_std.rs that carries the assumed contract of `Index` (panics when the key is absent); the stand-in's body is `&m[name]`
//@ rewrite 1 `for reloc in elf .elf() .dynrelas .iter() .chain(elf.elf().dynrels.iter().chain(elf.elf().pltrelocs.iter()))` => `for reloc in it0: reloc_chain3(elf.elf().dynrelas, elf.elf().dynrels, elf.elf().pltrelocs)` ## R-chain: `A.iter().chain(B.iter().chain(C.iter()))` yields the entries of A, then of B, then of C (Iterator::chain); the stand-in of units/C19/link_std.rs returns that sequence (same three `elf.elf()` calls, same order); also names the ghost iterator
//@ rewrite 1 `let value = match self.symbols.get(sym_name) { Some(v) => v.to_owned() as u32, None => { warn!("Could not resolve symbol {}", sym_name); continue; } };` => `if let Some(v) = btree_get_str(&self.symbols, sym_name) { let value = v.to_owned() as u32;` ## R-continue: `let x = match E { Some(v) => F, None => { W; continue; } }; REST` at the end of a loop body is by definition `if let Some(v) = E { let x = F; REST } else { W; }` (Verus: "for-loops do not yet support continue"); part 1 of 2; includes R-strget as below
//@ rewrite 1 `value)?; } goblin::elf::reloc::R_386_JMP_SLOT` => `value)?; } else { warn!("Could not resolve symbol {}", sym_name); } } goblin::elf::reloc::R_386_JMP_SLOT` ## R-continue: part 2 of 2, closes the `if let` block at the end of the match arm and moves the warning into its else branch
//@ rewrite 2 `self.symbols.get(sym_name)` => `btree_get_str(&self.symbols, sym_name)` ## R-strget: the same lookup through the stand-in of prelude/strmap.rs carrying the assumed contract of BTreeMap<String,_>::get::<str>
//@ rewrite 3 `v.to_owned() as u32` => `low32(v.to_owned())` ## R-cast-fn: `E as u32` on a u64 keeps the low 32 bits (Rust semantics of `as`); written as a call of the verified helper `low32` (units/C19/link_spec.rs) whose body is that cast, because Verus flags a bare narrowing cast
//@ rewrite 1 `elf.base_address() as u32` => `low32(elf.base_address())` ## R-cast-fn: as above
//@ rewrite * `self.filename,` => `path_debug(&self.filename),` ## R-debug-wrap: the PathBuf argument of `{:?}` wrapped into the stand-in `PathDebug` (units/C19/link_std.rs) whose Debug output is that of the PathBuf: the same message (vstd has no Debug specification for PathBuf)
//@ spec
    requires
        old(self).x86_req(filename@),
    ensures
        /*@frame*/ final(self).same_but_memory(old(self)),
        /*@wf*/ final(self).memory.wf() && final(self).memory.endian == old(self).memory.endian
            && same_shape(old(self).memory.sections@, final(self).memory.sections@),
        /*@relocated*/ final(self).memory.bytes() == old(self).x86_result(filename@).mem,
        /*@ok_iff*/ r is Ok <==> !old(self).x86_result(filename@).err,
        /*@err_kind*/ r matches Err(e) ==> e is Custom,
//@ before 0 `for reloc in it0:`
    let ghost name = filename@;
    let ghost p = goblin::elf::parsed(elf.bytes@);
    let ghost base = elf.base_address;
    let ghost s0 = self.memory.sections@;
    let ghost m0 = self.memory.bytes();
    let ghost en = self.memory.endian;
    let ghost syms = by_name(self.symbols@);
    let ghost relocs = p.dynrelas@ + p.dynrels@ + p.pltrelocs@;
    proof {
        assert(*elf == old(self).obj(name));
        assert(relocs == old(self).x86_relocs(name));
        lemma_x86_run_empty(s0, en, syms, p.dynsyms@, p.dynstrtab, base, m0, relocs);
        lemma_same_shape_refl(s0);
    }
//@ loop 0
    invariant
        /*@ctx*/ name == filename@ && *elf == old(self).obj(name) && elf.wf() && p == goblin::elf::parsed(elf.bytes@) && base == elf.base_address
            && dynsyms == p.dynsyms && dynstrtab == p.dynstrtab && it0.seq() == relocs && relocs == old(self).x86_relocs(name)
            && s0 == old(self).memory.sections@ && m0 == old(self).memory.bytes() && en == old(self).memory.endian && syms == by_name(old(self).symbols@)
            && sections_wf(s0) && old(self).x86_result(name) == x86_run(s0, en, syms, p.dynsyms@, p.dynstrtab, base, m0, relocs),
        /*@req*/ x86_relocs_wf(m0, p.dynsyms@, p.dynstrtab, base, relocs) && x86_run_fits(s0, en, syms, p.dynsyms@, p.dynstrtab, base, m0, relocs),
        /*@frame*/ self.same_but_memory(old(self)),
        /*@mem_wf*/ self.memory.wf() && self.memory.endian == en && same_shape(s0, self.memory.sections@),
        /*@prefix*/ !x86_run(s0, en, syms, p.dynsyms@, p.dynstrtab, base, m0, relocs.take(it0.index@ as int)).err
            && self.memory.bytes() == x86_run(s0, en, syms, p.dynsyms@, p.dynstrtab, base, m0, relocs.take(it0.index@ as int)).mem,
//@ before 0 `match reloc.r_type`
    let ghost i = it0.index@ as int;
    let ghost s_pre = self.memory.sections@;
    let ghost m_pre = self.memory.bytes();
    let ghost a = (reloc.r_offset + base) as u64;
    proof {
        assert(reloc == relocs[i]);
        assert(x86_reloc_wf(m0, p.dynsyms@, p.dynstrtab, base, relocs[i]));
        lemma_x86_run_step(s0, en, syms, p.dynsyms@, p.dynstrtab, base, m0, relocs, i);
        lemma_x86_run_prefix(s0, en, syms, p.dynsyms@, p.dynstrtab, base, m0, relocs, i + 1);
        assert(m_pre == x86_run(s0, en, syms, p.dynsyms@, p.dynstrtab, base, m0, relocs.take(i)).mem);
        assert(x86_run(s0, en, syms, p.dynsyms@, p.dynstrtab, base, m0, relocs.take(i + 1)) == x86_step(s0, en, syms, p.dynsyms@, p.dynstrtab, base, m_pre, reloc));
        assert(x86_step_fits(s0, en, base, m_pre, reloc));
        lemma_same_shape_within32(s0, s_pre, a);
        // the content keeps its domain: what was mapped at the start is mapped now
        lemma_same_shape_domain(s0, s_pre, a);
        if within32(s_pre, a) { lemma_get32_map(s_pre, en, a); }
        lemma_lo32(base);
    }
//@ after 0 `let sym_name = &dynstrtab[sym.st_name];`
    proof { if syms.contains_key(sym_name@) { lemma_lo32(syms[sym_name@]); } }
//@ after 2 `let sym_name = &dynstrtab[sym.st_name];`
    proof { if syms.contains_key(sym_name@) { lemma_lo32(syms[sym_name@]); } }
//@ after 3 `let sym_name = &dynstrtab[sym.st_name];`
    proof { if syms.contains_key(sym_name@) { lemma_lo32(syms[sym_name@]); } }
//@ after 0 `)?;`
    proof {
        lemma_set32_map_all(s_pre, self.memory.sections@, en, a);
        lemma_same_shape_intro(s_pre, self.memory.sections@);
        lemma_same_shape_trans(s0, s_pre, self.memory.sections@);
    }
//@ after 1 `)?;`
    proof {
        lemma_set32_map_all(s_pre, self.memory.sections@, en, a);
        lemma_same_shape_intro(s_pre, self.memory.sections@);
        lemma_same_shape_trans(s0, s_pre, self.memory.sections@);
    }
//@ after 2 `)?;`
    proof {
        lemma_set32_map_all(s_pre, self.memory.sections@, en, a);
        lemma_same_shape_intro(s_pre, self.memory.sections@);
        lemma_same_shape_trans(s0, s_pre, self.memory.sections@);
    }
//@ after 3 `)?;`
    proof {
        lemma_set32_map_all(s_pre, self.memory.sections@, en, a);
        lemma_same_shape_intro(s_pre, self.memory.sections@);
        lemma_same_shape_trans(s0, s_pre, self.memory.sections@);
    }
//@ before 0 `Ok(())`
    proof {
        assert(relocs.take(relocs.len() as int) =~= relocs);
    }
//@ end

    // ---- MIPS ------------------------------------------------------------------------------------------

    /// what the property demands of the MIPS passes over object `name`, from the current content and symbol table
    pub open spec fn mips_result(&self, name: Seq<char>) -> RunState {
        mips_run(self.memory.sections@, self.memory.endian, by_name(self.symbols@), goblin::elf::parsed(self.obj(name).bytes@),
            self.obj(name).base_address, self.memory.bytes())
    }

    /// "well-formed object" for the MIPS passes (see mips_wf in link_spec.rs)
    pub open spec fn mips_req(&self, name: Seq<char>) -> bool {
        &&& self.memory.wf()
        &&& by_name(self.loaded@).contains_key(name)
        &&& self.obj(name).wf()
        &&& mips_wf(by_name(self.symbols@), goblin::elf::parsed(self.obj(name).bytes@), self.obj(name).base_address, self.memory.bytes())
    }

//@ fn impl ElfLinker :: fn relocations_mips :: ~fn get_dynamic
//@ rewrite 1 `dynamic .dyns .iter() .find(` => `slice_iter_find(&dynamic.dyns, ` ## R-std-standin: `SLICE.iter().find(P)` through the stand-in of units/C19/link_std.rs that carries the assumed contract of Iterator::find (the first element satisfying P, None when there is none); same closure
//@ closure 0 |dynamic: goblin::elf::dynamic::Dynamic| -> (r0: Option<u64>)
    ensures dyns_first_is(dynamic.dyns@, tag, r0),
//@ closure 1 |dyn_: &&goblin::elf::dynamic::Dyn| -> (r1: bool)
    ensures r1 == (dyn_.d_tag == tag),
//@ closure 2 |dyn_: &goblin::elf::dynamic::Dyn| -> (r2: u64)
    ensures r2 == dyn_.d_val,
//@ spec
    requires elf.wf(),
    ensures
        /*@first*/ goblin::elf::parsed(elf.bytes@).dynamic is Some ==> dyns_first_is(goblin::elf::parsed(elf.bytes@).dynamic->Some_0.dyns@, tag, r),
        /*@none*/ goblin::elf::parsed(elf.bytes@).dynamic is None ==> r is None,
//@ end

//@ fn impl ElfLinker :: fn relocations_mips loops=3
//@ attr #[verifier::rlimit(120)]
//@ hoist ~fn get_dynamic
//@ rewrite 1 `let elf = &self.loaded[filename];` => `let elf = btree_index_str(&self.loaded, filename);` ## R-std-standin: as in relocations_x86
//@ rewrite 4 `get_dynamic(elf,` => `Self::get_dynamic(elf,` ## R-hoist: the nested fn is extracted as an associated function of the same impl block (scoping only)
//@ rewrite 2 `elf.base_address() as u32` => `low32(elf.base_address())` ## R-cast-fn: as in relocations_x86
//@ rewrite 1 `*value as u32` => `low32(*value)` ## R-cast-fn: as in relocations_x86
//@ rewrite 1 `self.symbols.get(symbol_name)` => `btree_get_str(&self.symbols, symbol_name)` ## R-strget: as in relocations_x86
//@ rewrite 1 `for dynrel in elf.elf().dynrels.iter()` => `for dynrel in it2: elf.elf().dynrels` ## R-iter-by-value: goblin's RelocSection::iter() yields the entries by value (Copy struct) in index order; prelude/goblin_elf.rs models the section as the Vec of its entries, whose by-value iteration is that sequence; also names the ghost iterator
//@ spec
    requires
        old(self).mips_req(filename@),
    ensures
        /*@frame*/ final(self).same_but_memory(old(self)),
        /*@wf*/ final(self).memory.wf() && final(self).memory.endian == old(self).memory.endian
            && same_shape(old(self).memory.sections@, final(self).memory.sections@),
        /*@relocated*/ final(self).memory.bytes() == old(self).mips_result(filename@).mem,
        /*@ok_iff*/ r is Ok <==> !old(self).mips_result(filename@).err,
//@ after 0 `let elf = btree_index_str(&self.loaded, filename);`
    let ghost name = filename@;
    let ghost p = goblin::elf::parsed(elf.bytes@);
    let ghost base = elf.base_address;
    let ghost s0 = self.memory.sections@;
    let ghost m0 = self.memory.bytes();
    let ghost en = self.memory.endian;
    let ghost syms = by_name(self.symbols@);
    proof {
        assert(*elf == old(self).obj(name));
        lemma_same_shape_refl(s0);
        lemma_dyn_find(p.dynamic, DT_MIPS_LOCAL_GOTNO_());
        lemma_dyn_find(p.dynamic, DT_MIPS_GOTSYM_());
        lemma_dyn_find(p.dynamic, DT_MIPS_SYMTABNO_());
        lemma_dyn_find(p.dynamic, goblin::elf::dynamic::DT_PLTGOT);
    }
//@ before 0 `for i in 0..(`
    let ghost g = MipsGot { local_gotno, gotsym, symtabno, pltgot };
    let ghost st1 = mips_got_step(s0, en, base, g);
    let ghost n1 = got_len(g) as nat;
    proof {
        assert(mips_tags(p.dynamic) == Some(g));
        lemma_run_steps_zero(st1, m0);
    }
//@ loop 0
    invariant
        /*@ctx*/ name == filename@ && *elf == old(self).obj(name) && elf.wf() && p == goblin::elf::parsed(elf.bytes@) && base == elf.base_address
            && s0 == old(self).memory.sections@ && m0 == old(self).memory.bytes() && en == old(self).memory.endian && syms == by_name(old(self).symbols@)
            && sections_wf(s0) && mips_tags(p.dynamic) == Some(g) && g == (MipsGot { local_gotno, gotsym, symtabno, pltgot })
            && st1 == mips_got_step(s0, en, base, g) && n1 == got_len(g) as nat && mips_wf(syms, p, base, m0),
        /*@frame*/ self.same_but_memory(old(self)),
        /*@mem_wf*/ self.memory.wf() && self.memory.endian == en && same_shape(s0, self.memory.sections@),
        /*@got_prefix*/ !run_steps(st1, m0, i as nat).err && self.memory.bytes() == run_steps(st1, m0, i as nat).mem,
//@ before 0 `let address = elf.base_address()`
    let ghost s_pre = self.memory.sections@;
    let ghost a = got_addr(g, base, i as int);
    proof {
        lemma_run_steps_next(st1, m0, i as nat);
        if run_steps(st1, m0, (i + 1) as nat).err { lemma_run_steps_sticky(st1, m0, (i + 1) as nat, n1); }
        lemma_same_shape_within32(s0, s_pre, a);
        if within32(s_pre, a) { lemma_get32_map(s_pre, en, a); }
        lemma_lo32(base);
    }
//@ after 0 `low32(elf.base_address())))?;`
    proof {
        lemma_set32_map(s_pre, self.memory.sections@, en, a, value.wrapping_add(lo32(base)));
        lemma_same_shape_intro(s_pre, self.memory.sections@);
        lemma_same_shape_trans(s0, s_pre, self.memory.sections@);
    }
//@ before 0 `let dynstrtab = elf.elf().dynstrtab;`
    let ghost r1 = run_steps(st1, m0, n1);
    let ghost st2 = mips_sym_step(s0, en, syms, p.dynsyms@, p.dynstrtab, base, g);
    let ghost n2 = (g.symtabno - g.gotsym) as nat;
    proof {
        lemma_run_steps_zero(st2, r1.mem);
    }
//@ loop 1
    invariant
        /*@ctx*/ name == filename@ && *elf == old(self).obj(name) && elf.wf() && p == goblin::elf::parsed(elf.bytes@) && base == elf.base_address
            && s0 == old(self).memory.sections@ && m0 == old(self).memory.bytes() && en == old(self).memory.endian && syms == by_name(old(self).symbols@)
            && sections_wf(s0) && mips_tags(p.dynamic) == Some(g) && g == (MipsGot { local_gotno, gotsym, symtabno, pltgot })
            && st1 == mips_got_step(s0, en, base, g) && n1 == got_len(g) as nat && mips_wf(syms, p, base, m0)
            && dynsyms == p.dynsyms && dynstrtab == p.dynstrtab
            && r1 == run_steps(st1, m0, n1) && !r1.err && st2 == mips_sym_step(s0, en, syms, p.dynsyms@, p.dynstrtab, base, g) && n2 == (g.symtabno - g.gotsym) as nat,
        /*@frame*/ self.same_but_memory(old(self)),
        /*@mem_wf*/ self.memory.wf() && self.memory.endian == en && same_shape(s0, self.memory.sections@),
        /*@address*/ address == g.pltgot + base + 4 * (g.local_gotno + (i - g.gotsym)),
        /*@sym_prefix*/ !run_steps(st2, r1.mem, (i - g.gotsym) as nat).err && self.memory.bytes() == run_steps(st2, r1.mem, (i - g.gotsym) as nat).mem,
//@ before 0 `let sym = dynsyms`
    let ghost s_pre = self.memory.sections@;
    let ghost k = (i - g.gotsym) as nat;
    let ghost a = got_addr(g, base, g.local_gotno + k);
    proof {
        lemma_run_steps_next(st2, r1.mem, k);
        if run_steps(st2, r1.mem, k + 1).err { lemma_run_steps_sticky(st2, r1.mem, k + 1, n2); }
        lemma_same_shape_within32(s0, s_pre, a);
        lemma_same_shape_domain(s0, s_pre, a);
        assert(a == address);
    }
//@ after 0 `low32(*value))?;`
    proof {
        lemma_set32_map(s_pre, self.memory.sections@, en, a, lo32(*value));
        lemma_same_shape_intro(s_pre, self.memory.sections@);
        lemma_same_shape_trans(s0, s_pre, self.memory.sections@);
    }
//@ before 0 `for dynrel in it2:`
    let ghost r2 = run_steps(st2, r1.mem, n2);
    let ghost rels = p.dynrels@;
    let ghost st3 = mips_rel_step(s0, en, base, g, rels);
    proof {
        lemma_run_steps_zero(st3, r2.mem);
    }
//@ loop 2
    invariant
        /*@ctx*/ name == filename@ && *elf == old(self).obj(name) && elf.wf() && p == goblin::elf::parsed(elf.bytes@) && base == elf.base_address
            && s0 == old(self).memory.sections@ && m0 == old(self).memory.bytes() && en == old(self).memory.endian && syms == by_name(old(self).symbols@)
            && sections_wf(s0) && mips_tags(p.dynamic) == Some(g) && g == (MipsGot { local_gotno, gotsym, symtabno, pltgot })
            && st1 == mips_got_step(s0, en, base, g) && n1 == got_len(g) as nat && mips_wf(syms, p, base, m0)
            && r1 == run_steps(st1, m0, n1) && !r1.err && st2 == mips_sym_step(s0, en, syms, p.dynsyms@, p.dynstrtab, base, g) && n2 == (g.symtabno - g.gotsym) as nat
            && r2 == run_steps(st2, r1.mem, n2) && !r2.err && rels == p.dynrels@ && it2.seq() == rels && st3 == mips_rel_step(s0, en, base, g, rels),
        /*@frame*/ self.same_but_memory(old(self)),
        /*@mem_wf*/ self.memory.wf() && self.memory.endian == en && same_shape(s0, self.memory.sections@),
        /*@rel_prefix*/ !run_steps(st3, r2.mem, it2.index@ as nat).err && self.memory.bytes() == run_steps(st3, r2.mem, it2.index@ as nat).mem,
//@ before 0 `if dynrel.r_type == goblin::elf::reloc::R_MIPS_REL32`
    let ghost s_pre = self.memory.sections@;
    let ghost k = it2.index@ as nat;
    let ghost a = (dynrel.r_offset + base) as u64;
    let ghost ga = got_addr(g, base, g.local_gotno + (dynrel.r_sym - g.gotsym));
    proof {
        assert(dynrel == rels[k as int]);
        lemma_run_steps_next(st3, r2.mem, k);
        if run_steps(st3, r2.mem, k + 1).err { lemma_run_steps_sticky(st3, r2.mem, k + 1, rels.len()); }
        lemma_same_shape_within32(s0, s_pre, a);
        if within32(s_pre, a) { lemma_get32_map(s_pre, en, a); }
        if g.gotsym <= dynrel.r_sym < g.symtabno {
            lemma_same_shape_within32(s0, s_pre, ga);
            if within32(s_pre, ga) { lemma_get32_map(s_pre, en, ga); }
        }
        lemma_lo32(base);
    }
//@ after 10 `)?;`
    proof {
        lemma_set32_map_all(s_pre, self.memory.sections@, en, a);
        lemma_same_shape_intro(s_pre, self.memory.sections@);
        lemma_same_shape_trans(s0, s_pre, self.memory.sections@);
    }
//@ end

//@ fn impl ElfLinker :: fn loaded
//@ spec
    ensures /*@same*/ *r == self.loaded,
//@ end

//@ fn impl ElfLinker :: fn add_user_function
//@ spec
    ensures
        /*@pushed*/ final(self).user_functions@ == old(self).user_functions@.push(address),
        /*@frame*/ final(self).memory == old(self).memory && final(self).filename == old(self).filename && final(self).loaded == old(self).loaded
            && final(self).symbols == old(self).symbols && final(self).next_lib_address == old(self).next_lib_address
            && final(self).do_relocations == old(self).do_relocations && final(self).just_interpreter == old(self).just_interpreter
            && final(self).ld_paths == old(self).ld_paths,
//@ end

    /// the name under which the primary object is registered: the file-name part of `self.filename`
    pub open spec fn primary(&self) -> Seq<char> { pathbuf_name(self.filename).unwrap() }

    /// the primary object is loaded (ElfLinker::new loads it first, under the file-name part of its path)
    pub open spec fn primary_loaded(&self) -> bool {
        pathbuf_name(self.filename) is Some && by_name(self.loaded@).contains_key(self.primary())
    }

} // impl ElfLinker

impl Loader for ElfLinker {
    open spec fn memory_req(&self) -> bool { true }

    /// every loaded object satisfies the precondition of its own function_entries() (no address wrap, valid name offsets)
    open spec fn function_entries_req(&self) -> bool {
        forall|k: String| #[trigger] self.loaded@.contains_key(k) ==> self.loaded@[k].function_entries_req()
    }

    /// the primary object is loaded and its own program_entry() is well-formed (e_entry + base does not wrap)
    open spec fn program_entry_req(&self) -> bool {
        self.primary_loaded() && self.obj(self.primary()).program_entry_req()
    }

    /// every loaded object satisfies the precondition of its own symbols() (no address wrap, valid name offsets)
    open spec fn symbols_req(&self) -> bool {
        forall|k: String| #[trigger] self.loaded@.contains_key(k) ==> self.loaded@[k].symbols_req()
    }

    /// the primary object is loaded (the code indexes `self.loaded` with the file-name part of `self.filename`)
    open spec fn architecture_req(&self) -> bool { self.primary_loaded() }

//@ fn impl Loader for ElfLinker :: fn memory nopub
//@ spec
    ensures
        /*@ok*/ r is Ok,
        /*@copy*/ r matches Ok(m) ==> m.endian == self.memory.endian && (self.memory.wf() ==> m.wf() && m.bytes() == self.memory.bytes()),
//@ before 0 `Ok(self.memory.clone())`
    proof {
        assert forall|m: Memory| #[trigger] same_content(self.memory.sections@, m.sections@) && sections_wf(self.memory.sections@) implies
            bytes_of(m.sections@) == bytes_of(self.memory.sections@) && sections_wf(m.sections@) by {
            lemma_same_content(self.memory.sections@, m.sections@);
        }
    }
//@ end

//@ fn impl Loader for ElfLinker :: fn function_entries nopub loops=2
//@ rewrite 1 `for loaded in &self.loaded` => `for loaded in it0: self.loaded.iter()` ## R-into-iter: `for x in &MAP` is `for x in MAP.iter()` (std: `impl IntoIterator for &BTreeMap` calls `iter`); also names the ghost iterator
//@ rewrite 1 `function_entries.append(&mut loaded.1.function_entries()?);` => `let mut vf_tmp = loaded.1.function_entries()?; function_entries.append(&mut vf_tmp);` ## R-temp-let: the temporary that `&mut EXPR` borrows is bound to a local first (same evaluation order, same value)
//@ rewrite 1 `for address in &self.user_functions` => `for address in it1: &self.user_functions` ## R-ghost-iter-name: names the ghost iterator of the for loop; no executable change
//@ spec
    ensures
        /*@ok*/ r is Ok,
        /*@entries*/ r matches Ok(v) ==> exists|ks: Seq<String>| #[trigger] key_listing(ks, self.loaded@)
            && entries_match(v@, link_entries(ks.map_values(|k: String| self.loaded@[k])) + linker_user_entries(self.user_functions@)),
//@ before 0 `for loaded in it0:`
    let ghost mut ks: Seq<String> = Seq::empty();
    let ghost mut objs: Seq<Elf> = Seq::empty();
//@ loop 0
    invariant
        /*@snap_nodup*/ it0.seq().no_duplicates(),
        /*@snap_sound*/ forall|j: int| 0 <= j < it0.seq().len() ==> self.loaded@.contains_key(*(#[trigger] it0.seq()[j]).0) && self.loaded@[*it0.seq()[j].0] == *it0.seq()[j].1,
        /*@snap_complete*/ forall|k: String| #[trigger] self.loaded@.contains_key(k) ==> exists|j: int| 0 <= j < it0.seq().len() && *(#[trigger] it0.seq()[j]).0 == k,
        /*@req*/ self.function_entries_req(),
        /*@visited*/ ks == pairs_keys(it0.seq(), it0.index@ as int) && objs == pairs_objs(it0.seq(), it0.index@ as int),
        /*@listing_at_end*/ it0.index@ == it0.seq().len() ==> key_listing(ks, self.loaded@) && ks.map_values(|k: String| self.loaded@[k]) == objs,
        /*@obj_prefix*/ entries_match(function_entries@, link_entries(objs)),
//@ before 0 `let mut vf_tmp =`
    let ghost i = it0.index@ as int;
    let ghost v0 = function_entries@;
    proof {
        assert(loaded == it0.seq()[i]);
        assert(self.loaded@.contains_key(*it0.seq()[i].0));
        lemma_link_entries_step(it0.seq(), i);
        lemma_pairs_listing(it0.seq(), self.loaded@);
    }
//@ after 0 `function_entries.append(&mut vf_tmp);`
    proof {
        ks = ks.push(*loaded.0);
        objs = objs.push(*loaded.1);
        assert(ks =~= pairs_keys(it0.seq(), i + 1));
        assert(objs =~= pairs_objs(it0.seq(), i + 1));
        if entries_match(function_entries@.subrange(v0.len() as int, function_entries@.len() as int), obj_entries(*loaded.1)) {
            assert(function_entries@ =~= v0 + function_entries@.subrange(v0.len() as int, function_entries@.len() as int));
            lemma_entries_match_concat(v0, link_entries(pairs_objs(it0.seq(), i)), function_entries@.subrange(v0.len() as int, function_entries@.len() as int), obj_entries(*loaded.1));
        }
    }
//@ before 0 `for address in it1:`
    let ghost e1 = link_entries(objs);
    proof {
        assert(e1 + linker_user_entries(self.user_functions@.take(0)) =~= e1);
    }
//@ loop 1
    invariant
        /*@ctx*/ key_listing(ks, self.loaded@) && e1 == link_entries(ks.map_values(|k: String| self.loaded@[k])),
        /*@user_prefix*/ entries_match(function_entries@, e1 + linker_user_entries(self.user_functions@.take(it1.index@ as int))),
//@ before 0 `function_entries.push(`
    let ghost i = it1.index@ as int;
    let ghost v0 = function_entries@;
    proof {
        assert(*address == self.user_functions@[i]);
        assert(linker_user_entries(self.user_functions@.take(i + 1)) =~= linker_user_entries(self.user_functions@.take(i)).push(EntrySpec { address: self.user_functions@[i] as int, name: EntryName::Anon }));
    }
//@ after 0 `None));`
    proof {
        let sx = EntrySpec { address: self.user_functions@[i] as int, name: EntryName::Anon };
        let pre = linker_user_entries(self.user_functions@.take(i));
        if entry_matches(function_entries@[function_entries@.len() - 1], sx) {
            assert(function_entries@ =~= v0.push(function_entries@[function_entries@.len() - 1]));
            lemma_entries_match_push(v0, e1 + pre, function_entries@[function_entries@.len() - 1], sx);
            assert((e1 + pre).push(sx) =~= e1 + pre.push(sx));
        }
    }
//@ before 0 `Ok(function_entries)`
    proof {
        assert(self.user_functions@.take(self.user_functions@.len() as int) =~= self.user_functions@);
    }
//@ end

//@ fn impl Loader for ElfLinker :: fn program_entry nopub
//@ rewrite 1 `self .filename .as_path() .file_name() .unwrap() .to_str() .unwrap()` => `pathbuf_file_name_str(&self.filename)` ## R-std-standin: the chain of std::path calls through the stand-in of units/C19/link_std.rs whose body is that chain; its precondition is that neither `unwrap` panics (the path has a UTF-8 file name)
//@ rewrite 1 `self.loaded[filename]` => `btree_index_str(&self.loaded, filename)` ## R-std-standin: as in relocations_x86
//@ spec
    ensures /*@primary_entry*/ r == goblin::elf::parsed(self.obj(self.primary()).bytes@).header.e_entry + self.obj(self.primary()).base_address,
//@ end

//@ fn impl Loader for ElfLinker :: fn architecture nopub
//@ rewrite 1 `self .filename .as_path() .file_name() .unwrap() .to_str() .unwrap()` => `pathbuf_file_name_str(&self.filename)` ## R-std-standin: as in program_entry
//@ rewrite 1 `self.loaded[filename]` => `btree_index_str(&self.loaded, filename)` ## R-std-standin: as in relocations_x86
//@ spec
    ensures /*@primary_arch*/ r == &*self.obj(self.primary()).architecture,
//@ end

//@ fn impl Loader for ElfLinker :: fn symbols nopub loops=1
//@ rewrite 1 `self.loaded .iter() .flat_map(|(_, elf)|` => `{ let mut vf_out: Vec<Symbol> = Vec::new(); for (_vf_key, elf) in it0: self.loaded.iter() { let mut vf_tmp: Vec<Symbol> =` ## R-flat-map-collect: `ITER.flat_map(|(_, x)| F).collect::<Vec<T>>()` is by definition the loop that appends the items of F, for every item of ITER in order, to an initially empty Vec<T> (part 1 of 2; the iterator expression and F stay the original tokens)
//@ rewrite 1 `) .collect()` => `; vf_out.append(&mut vf_tmp); } vf_out }` ## R-flat-map-collect: part 2 of 2
//@ spec
    ensures
        /*@symbols*/ exists|ks: Seq<String>| #[trigger] key_listing(ks, self.loaded@)
            && views(r@) == link_symbols(ks.map_values(|k: String| self.loaded@[k])),
//@ before 0 `for (_vf_key, elf) in it0:`
    let ghost mut ks: Seq<String> = Seq::empty();
    let ghost mut objs: Seq<Elf> = Seq::empty();
    proof { assert(views(vf_out@) =~= Seq::<SymSpec>::empty()); }
//@ loop 0
    invariant
        /*@snap_nodup*/ it0.seq().no_duplicates(),
        /*@snap_sound*/ forall|j: int| 0 <= j < it0.seq().len() ==> self.loaded@.contains_key(*(#[trigger] it0.seq()[j]).0) && self.loaded@[*it0.seq()[j].0] == *it0.seq()[j].1,
        /*@snap_complete*/ forall|k: String| #[trigger] self.loaded@.contains_key(k) ==> exists|j: int| 0 <= j < it0.seq().len() && *(#[trigger] it0.seq()[j]).0 == k,
        /*@req*/ self.symbols_req(),
        /*@visited*/ ks == pairs_keys(it0.seq(), it0.index@ as int) && objs == pairs_objs(it0.seq(), it0.index@ as int),
        /*@listing_at_end*/ it0.index@ == it0.seq().len() ==> key_listing(ks, self.loaded@) && ks.map_values(|k: String| self.loaded@[k]) == objs,
        /*@sym_prefix*/ views(vf_out@) == link_symbols(objs),
//@ before 0 `let mut vf_tmp: Vec<Symbol> =`
    let ghost i = it0.index@ as int;
    let ghost v0 = vf_out@;
    proof {
        assert((_vf_key, elf) == it0.seq()[i]);
        assert(self.loaded@.contains_key(*it0.seq()[i].0));
        lemma_link_symbols_step(it0.seq(), i);
        lemma_pairs_listing(it0.seq(), self.loaded@);
    }
//@ after 0 `vf_out.append(&mut vf_tmp);`
    proof {
        ks = ks.push(*_vf_key);
        objs = objs.push(*elf);
        assert(ks =~= pairs_keys(it0.seq(), i + 1));
        assert(objs =~= pairs_objs(it0.seq(), i + 1));
        lemma_views_concat(v0, vf_out@.subrange(v0.len() as int, vf_out@.len() as int));
        assert(vf_out@ =~= v0 + vf_out@.subrange(v0.len() as int, vf_out@.len() as int));
    }
//@ end

} // impl Loader for ElfLinker
