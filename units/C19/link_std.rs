// ======================================================================================
// units/C19/link_std.rs — std / third-party operations used by lib/loader/elf/elf_linker.rs that vstd
// (0.2026.09.13) has no specification for.  Every item is an ASSUMED contract (listed in the evidence);
// each one is the documented behaviour of the library item it stands for.
// ======================================================================================
pub mod c19_link_std {
    use vstd::prelude::*;
    use std::collections::BTreeMap;
    use std::path::{Path, PathBuf};
    use crate::strmap::*;
    use crate::goblin_elf::elf::reloc::Reloc;

    // std::path::PathBuf: opaque (the linker only stores it, clones it and prints it)
    #[verifier::external_type_specification]
    #[verifier::external_body]
    pub struct ExPathBuf(PathBuf);

    // `&map[name]` on a BTreeMap<String, V> with a &str (`Index<&Q>`, String: Borrow<str>).  std: "Returns a
    // reference to the value corresponding to the supplied key.  Panics if the key is not present in the
    // BTreeMap."  A String key matches a &str exactly when they hold the same characters (prelude/strmap.rs).
    #[verifier::external_body]
    pub fn btree_index_str<'a, V>(m: &'a BTreeMap<String, V>, name: &str) -> (r: &'a V)
        requires by_name(m@).contains_key(name@),
        ensures *r == by_name(m@)[name@],
    {
        &m[name]
    }

    // `a.iter().chain(b.iter().chain(c.iter()))` over three goblin RelocSections.  std (Iterator::chain): "Takes
    // two iterators and creates a new iterator over both in sequence"; goblin's RelocSection::iter() yields the
    // entries of the section in index order, BY VALUE (`Reloc` is a Copy struct).  The stand-in returns exactly
    // that sequence as a Vec (prelude/goblin_elf.rs models a RelocSection as the Vec of its entries).
    #[verifier::external_body]
    pub fn reloc_chain3(a: Vec<Reloc>, b: Vec<Reloc>, c: Vec<Reloc>) -> (r: Vec<Reloc>)
        ensures r@ == a@ + b@ + c@,
    {
        let mut v = a; let mut b = b; let mut c = c;
        v.append(&mut b); v.append(&mut c);
        v
    }

    // `slice.iter().find(p)`.  std (Iterator::find): "Searches for an element of an iterator that satisfies a predicate
    // ... returns the first element for which the predicate is true, None if they all return false"; the predicate of
    // an iterator over `&T` receives `&&T`; a slice iterator visits the elements in index order.
    #[verifier::external_body]
    pub fn slice_iter_find<'a, T, F: Fn(&&'a T) -> bool>(v: &'a Vec<T>, f: F) -> (r: Option<&'a T>)
        requires forall|i: int| 0 <= i < v@.len() ==> #[trigger] f.requires((&&v@[i],)),
        ensures
            r matches Some(x) ==> exists|i: int| 0 <= i < v@.len() && *x == v@[i] && f.ensures((&&v@[i],), true)
                && forall|j: int| 0 <= j < i ==> f.ensures((&&#[trigger] v@[j],), false),
            r is None ==> forall|j: int| 0 <= j < v@.len() ==> f.ensures((&&#[trigger] v@[j],), false),
    {
        v.iter().find(f)
    }

    // std::path::Path (unsized): opaque
    #[verifier::external_type_specification]
    #[verifier::external_body]
    pub struct ExPath(Path);

    /// the final component of the path as text: None when the path has no file name (e.g. ends in `..`) or the name
    /// is not valid UTF-8 (uninterpreted: a function of the path only)
    pub uninterp spec fn pathbuf_name(p: PathBuf) -> Option<Seq<char>>;

    // `p.as_path().file_name().unwrap().to_str().unwrap()`.  std: Path::file_name "Returns the final component of the
    // Path, if there is one", OsStr::to_str "Yields a &str slice if the OsStr is valid Unicode"; each `unwrap` panics on
    // None - that is the precondition.
    #[verifier::external_body]
    pub fn pathbuf_file_name_str(p: &PathBuf) -> (r: &str)
        requires pathbuf_name(*p) is Some,
        ensures r@ == pathbuf_name(*p).unwrap(),
    {
        p.as_path().file_name().unwrap().to_str().unwrap()
    }

    // `{:?}` of a PathBuf inside format!: vstd has no Debug specification for PathBuf (and none can be supplied for a
    // foreign type), so the argument is wrapped: `PathDebug(p)` prints exactly what `p` prints under `{:?}`.  The text only
    // ever ends up inside an Error::Custom message, which verified code never inspects: no contract, always callable.
    #[verifier::external_body]
    pub struct PathDebug<'a> { p: &'a PathBuf }
    impl<'a> vstd::std_specs::fmt::DebugSpecImpl for PathDebug<'a> {
        open spec fn fmt_req(&self, f: &std::fmt::Formatter<'_>) -> bool { true }
    }
    impl<'a> std::fmt::Debug for PathDebug<'a> {
        #[verifier::external_body]
        fn fmt(&self, f: &mut std::fmt::Formatter<'_>) -> std::fmt::Result { std::fmt::Debug::fmt(self.p, f) }
    }
    #[verifier::external_body]
    pub fn path_debug<'a>(p: &'a PathBuf) -> (r: PathDebug<'a>)
    {
        PathDebug { p }
    }

    // `<T as ToOwned>::to_owned` (blanket impl for T: Clone): "Creates owned data from borrowed data, usually by
    // cloning" - it is `self.clone()`.
    pub assume_specification<T: Clone> [ <T as std::borrow::ToOwned>::to_owned ] (x: &T) -> (r: T)
        ensures cloned::<T>(*x, r);
}
