// ---- memory::MemoryPermissions ----------------------------------------------------------------
// Stand-in for the type the `bitflags!` macro (bitflags 1.x, third party) generates in lib/memory/mod.rs:
//     bitflags! { pub struct MemoryPermissions: u32 {
//         const NONE = 0b000; const READ = 0b001; const WRITE = 0b010; const EXECUTE = 0b100; const ALL = 0b111; } }
// i.e. `pub struct MemoryPermissions { bits: u32 }` deriving Copy, Clone, PartialEq, ..., the associated
// constants with the listed bit patterns, and `impl BitOrAssign { fn bitor_assign(&mut self, other) {
// self.bits |= other.bits } }`.  Same struct as in unit C16 (whose contracts are imported), plus the three
// things `Elf::memory` uses: the constants NONE / READ / WRITE / EXECUTE and the operator `|=`.
// ASSUMED: the constant values are copied by hand from lib/memory/mod.rs (the extractor cannot look into
// the macro invocation); `|=` is the bitwise union of the two bit sets (bitflags documentation).
#[derive(Clone, Copy)]
pub struct MemoryPermissions { pub bits: u32 }

impl MemoryPermissions {
    pub const NONE: MemoryPermissions = MemoryPermissions { bits: 0 };
    pub const READ: MemoryPermissions = MemoryPermissions { bits: 1 };
    pub const WRITE: MemoryPermissions = MemoryPermissions { bits: 2 };
    pub const EXECUTE: MemoryPermissions = MemoryPermissions { bits: 4 };
}

impl vstd::std_specs::ops::BitOrAssignSpecImpl<MemoryPermissions> for MemoryPermissions {
    open spec fn obeys_bitor_assign_spec() -> bool { true }
    open spec fn bitor_assign_req(&self, rhs: MemoryPermissions) -> bool { true }
    open spec fn bitor_assign_spec(&self, rhs: MemoryPermissions) -> &MemoryPermissions {
        &MemoryPermissions { bits: self.bits | rhs.bits }
    }
}

impl std::ops::BitOrAssign for MemoryPermissions {
    #[verifier::external_body]
    fn bitor_assign(&mut self, rhs: MemoryPermissions)
        ensures final(self).bits == old(self).bits | rhs.bits,
    { unimplemented!() }
}
