// ======================================================================================
// units/C19/link_spec.rs — what the relocation passes of lib/loader/elf/elf_linker.rs must do to the
// linked memory, stated over the WHOLE content view of the memory (C16's address -> (byte, permissions)
// map).  Taken from the property ("each relocated word holds the once-rebased address of the symbol it
// names") and the processor supplements (i386 psABI: R_386_32 = S + A, R_386_GLOB_DAT = R_386_JMP_SLOT = S,
// R_386_RELATIVE = B + A, with REL entries: the addend A is the word in place; MIPS: local GOT entries and
// R_MIPS_REL32 words + B, global GOT entries of undefined symbols = S), NOT from the code.
//   S  = the linker's symbol-table entry for the name (`symbols`: name -> absolute address; that every entry is
//        st_value + base of the defining object, ONCE, is the invariant `symtab_ok` established by load_elf),
//   B  = the base address of the object being relocated,  words are 32 bits in the memory's byte order.
// ======================================================================================

pub type SymTab = IMap<Seq<char>, u64>;

/// the low 32 bits of an address (a 32-bit object's addresses are below 2^32: then this is the address)
pub open spec fn lo32(v: u64) -> u32 { (v % 0x1_0000_0000) as u32 }

/// 32-bit modular addition
pub open spec fn add32(a: u32, b: u32) -> u32 { ((a + b) % 0x1_0000_0000) as u32 }

/// content after storing the 32-bit `value` at `address` in byte order `e`: the four bytes change, the permissions
/// and every other address stay, nothing is mapped or unmapped
pub open spec fn write32_map(m: ByteMap, e: Endian, address: u64, value: u32) -> ByteMap {
    IMap::new(
        |x: u64| m.contains_key(x),
        |x: u64| if address <= x < address + 4 { (w32_byte(e, value, x - address), m[x].1) } else { m[x] },
    )
}

/// the 32-bit word stored at `address` in byte order `e`
pub open spec fn read32_map(m: ByteMap, e: Endian, address: u64) -> nat {
    endian_value(e, Seq::new(4, |i: int| m[(address + i) as u64].0))
}

/// state of a relocation pass: the content, and whether the pass has stopped with an error
pub struct RunState {
    pub mem: ByteMap,
    pub err: bool,
}

pub open spec fn run_ok(m: ByteMap) -> RunState { RunState { mem: m, err: false } }
pub open spec fn run_err(m: ByteMap) -> RunState { RunState { mem: m, err: true } }

// ---- i386 -------------------------------------------------------------------------------------

pub open spec fn x86_names_symbol(t: u32) -> bool {
    t == goblin::elf::reloc::R_386_32 || t == goblin::elf::reloc::R_386_PLT32
        || t == goblin::elf::reloc::R_386_GLOB_DAT || t == goblin::elf::reloc::R_386_JMP_SLOT
}

pub open spec fn reloc_name(r: Reloc, dynsyms: Seq<Sym>, tab: Strtab) -> Seq<char> {
    tab.name_at(dynsyms[r.r_sym as int].st_name)
}

/// one i386 relocation entry of the object loaded at `base`, applied to content `m`.  `s0` is the section map the
/// pass started from: it only decides whether the four bytes lie inside ONE stored section (backing::Memory::{get32,
/// set32} refuse a word that straddles two sections); the pass never changes which addresses are stored where.
pub open spec fn x86_step(s0: SecMap, e: Endian, syms: SymTab, dynsyms: Seq<Sym>, tab: Strtab, base: u64, m: ByteMap, r: Reloc) -> RunState {
    let a = (r.r_offset + base) as u64;
    let name = reloc_name(r, dynsyms, tab);
    if r.r_type == goblin::elf::reloc::R_386_32 {
        // S + A
        if syms.contains_key(name) && within32(s0, a) { run_ok(write32_map(m, e, a, add32(lo32(syms[name]), read32_map(m, e, a) as u32))) } else { run_err(m) }
    } else if r.r_type == goblin::elf::reloc::R_386_GLOB_DAT {
        // S; an unresolved symbol leaves the word alone (weak reference)
        if !syms.contains_key(name) { run_ok(m) } else if within32(s0, a) { run_ok(write32_map(m, e, a, lo32(syms[name]))) } else { run_err(m) }
    } else if r.r_type == goblin::elf::reloc::R_386_JMP_SLOT {
        // S
        if syms.contains_key(name) && within32(s0, a) { run_ok(write32_map(m, e, a, lo32(syms[name]))) } else { run_err(m) }
    } else if r.r_type == goblin::elf::reloc::R_386_RELATIVE {
        // B + A, B the base of THIS object
        if within32(s0, a) { run_ok(write32_map(m, e, a, (lo32(base) + read32_map(m, e, a)) as u32)) } else { run_err(m) }
    } else {
        // every other type is refused
        run_err(m)
    }
}

/// the pass over `relocs` in order; it stops at the first error
#[verifier::opaque]
pub open spec fn x86_run(s0: SecMap, e: Endian, syms: SymTab, dynsyms: Seq<Sym>, tab: Strtab, base: u64, m0: ByteMap, relocs: Seq<Reloc>) -> RunState
    decreases relocs.len(),
{
    if relocs.len() == 0 {
        run_ok(m0)
    } else {
        let p = x86_run(s0, e, syms, dynsyms, tab, base, m0, relocs.drop_last());
        if p.err { p } else { x86_step(s0, e, syms, dynsyms, tab, base, p.mem, relocs.last()) }
    }
}

/// "well-formed object" for the i386 pass, the part that does not depend on the content: r_offset + base does not
/// wrap; an entry whose type names a symbol has a valid symbol index and that symbol a valid name offset (the code
/// `expect`s / indexes: it panics otherwise); the word of a GLOB_DAT / JMP_SLOT entry is mapped (backing::Memory::set32
/// panics on an unmapped address, unit C16 finding (iii))
pub open spec fn x86_reloc_wf(m0: ByteMap, dynsyms: Seq<Sym>, tab: Strtab, base: u64, r: Reloc) -> bool {
    &&& r.r_offset + base <= u64::MAX
    &&& x86_names_symbol(r.r_type) ==> r.r_sym < dynsyms.len() && tab.valid_at(dynsyms[r.r_sym as int].st_name)
    &&& (r.r_type == goblin::elf::reloc::R_386_GLOB_DAT || r.r_type == goblin::elf::reloc::R_386_JMP_SLOT)
            ==> m0.contains_key((r.r_offset + base) as u64)
}

pub open spec fn x86_relocs_wf(m0: ByteMap, dynsyms: Seq<Sym>, tab: Strtab, base: u64, relocs: Seq<Reloc>) -> bool {
    forall|i: int| 0 <= i < relocs.len() ==> x86_reloc_wf(m0, dynsyms, tab, base, #[trigger] relocs[i])
}

/// ... and the part that does: B + A of every RELATIVE entry that is reached fits 32 bits (the code adds without
/// wrapping: a debug build panics on overflow)
pub open spec fn x86_step_fits(s0: SecMap, e: Endian, base: u64, m: ByteMap, r: Reloc) -> bool {
    (r.r_type == goblin::elf::reloc::R_386_RELATIVE && within32(s0, (r.r_offset + base) as u64))
        ==> lo32(base) + read32_map(m, e, (r.r_offset + base) as u64) <= u32::MAX
}

#[verifier::opaque]
pub open spec fn x86_run_fits(s0: SecMap, e: Endian, syms: SymTab, dynsyms: Seq<Sym>, tab: Strtab, base: u64, m0: ByteMap, relocs: Seq<Reloc>) -> bool
    decreases relocs.len(),
{
    if relocs.len() == 0 {
        true
    } else {
        let p = x86_run(s0, e, syms, dynsyms, tab, base, m0, relocs.drop_last());
        x86_run_fits(s0, e, syms, dynsyms, tab, base, m0, relocs.drop_last())
            && (p.err || x86_step_fits(s0, e, base, p.mem, relocs.last()))
    }
}

pub proof fn lemma_x86_run_step(s0: SecMap, e: Endian, syms: SymTab, dynsyms: Seq<Sym>, tab: Strtab, base: u64, m0: ByteMap, relocs: Seq<Reloc>, i: int)
    requires 0 <= i < relocs.len(),
    ensures
        x86_run(s0, e, syms, dynsyms, tab, base, m0, relocs.take(i + 1)) == ({
            let p = x86_run(s0, e, syms, dynsyms, tab, base, m0, relocs.take(i));
            if p.err { p } else { x86_step(s0, e, syms, dynsyms, tab, base, p.mem, relocs[i]) }
        }),
        x86_run_fits(s0, e, syms, dynsyms, tab, base, m0, relocs.take(i + 1)) == ({
            let p = x86_run(s0, e, syms, dynsyms, tab, base, m0, relocs.take(i));
            x86_run_fits(s0, e, syms, dynsyms, tab, base, m0, relocs.take(i)) && (p.err || x86_step_fits(s0, e, base, p.mem, relocs[i]))
        }),
{
    reveal_with_fuel(x86_run, 2);
    reveal_with_fuel(x86_run_fits, 2);
    assert(relocs.take(i + 1).drop_last() =~= relocs.take(i));
    assert(relocs.take(i + 1).last() == relocs[i]);
}

pub proof fn lemma_x86_run_empty(s0: SecMap, e: Endian, syms: SymTab, dynsyms: Seq<Sym>, tab: Strtab, base: u64, m0: ByteMap, relocs: Seq<Reloc>)
    ensures x86_run(s0, e, syms, dynsyms, tab, base, m0, relocs.take(0)) == run_ok(m0),
{
    reveal_with_fuel(x86_run, 2);
    assert(relocs.take(0).len() == 0);
}

/// an error is final: the rest of the table is not processed; and `fits` of the whole table gives `fits` of a prefix
pub proof fn lemma_x86_run_prefix(s0: SecMap, e: Endian, syms: SymTab, dynsyms: Seq<Sym>, tab: Strtab, base: u64, m0: ByteMap, relocs: Seq<Reloc>, k: int)
    requires 0 <= k <= relocs.len(),
    ensures
        x86_run(s0, e, syms, dynsyms, tab, base, m0, relocs.take(k)).err
            ==> x86_run(s0, e, syms, dynsyms, tab, base, m0, relocs) == x86_run(s0, e, syms, dynsyms, tab, base, m0, relocs.take(k)),
        x86_run_fits(s0, e, syms, dynsyms, tab, base, m0, relocs) ==> x86_run_fits(s0, e, syms, dynsyms, tab, base, m0, relocs.take(k)),
    decreases relocs.len() - k,
{
    if k == relocs.len() {
        assert(relocs.take(k) =~= relocs);
    } else {
        lemma_x86_run_step(s0, e, syms, dynsyms, tab, base, m0, relocs, k);
        lemma_x86_run_prefix(s0, e, syms, dynsyms, tab, base, m0, relocs, k + 1);
    }
}

// ---- linking the view-level statements to backing::Memory's section-level contracts ------------------

/// C16's `set32` postcondition, restated on the content map
pub proof fn lemma_set32_map(s0: SecMap, s1: SecMap, e: Endian, address: u64, value: u32)
    requires
        sections_wf(s0),
        within32(s0, address),
        forall|x: int| #[trigger] vw(s1, x) == (
            if address <= x < address + 4 { Some((w32_byte(e, value, x - address), vw(s0, x).unwrap().1)) } else { vw(s0, x) }),
    ensures
        bytes_of(s1) == write32_map(bytes_of(s0), e, address, value),
{
    let m1 = bytes_of(s1);
    let m2 = write32_map(bytes_of(s0), e, address, value);
    lemma_within32_mapped(s0, address);
    assert forall|x: u64| m1.contains_key(x) == m2.contains_key(x) && (m1.contains_key(x) ==> m1[x] == m2[x]) by {
        let xi = x as int;
        assert(vw(s1, xi) == (if address <= xi < address + 4 { Some((w32_byte(e, value, xi - address), vw(s0, xi).unwrap().1)) } else { vw(s0, xi) }));
        if address <= xi < address + 4 { assert(vw(s0, xi) is Some); }
    }
    assert(m1 =~= m2);
}

/// the same for whatever value was stored: if the content after the call is "old content with the four bytes of
/// `value` at `address`", it is write32_map(.., value)
pub proof fn lemma_set32_map_all(s0: SecMap, s1: SecMap, e: Endian, address: u64)
    requires sections_wf(s0), within32(s0, address),
    ensures
        forall|value: u32| (forall|x: int| #[trigger] vw(s1, x) == (
                if address <= x < address + 4 { Some((w32_byte(e, value, x - address), vw(s0, x).unwrap().1)) } else { vw(s0, x) }))
            ==> bytes_of(s1) == #[trigger] write32_map(bytes_of(s0), e, address, value),
{
    assert forall|value: u32| (forall|x: int| #[trigger] vw(s1, x) == (
                if address <= x < address + 4 { Some((w32_byte(e, value, x - address), vw(s0, x).unwrap().1)) } else { vw(s0, x) }))
            implies bytes_of(s1) == #[trigger] write32_map(bytes_of(s0), e, address, value) by {
        lemma_set32_map(s0, s1, e, address, value);
    }
}

/// a word inside one section is mapped and does not reach the end of the address space
pub proof fn lemma_within32_mapped(s: SecMap, address: u64)
    requires sections_wf(s), within32(s, address),
    ensures
        address + 4 <= u64::MAX,
        forall|x: int| address <= x < address + 4 ==> (#[trigger] vw(s, x)) is Some,
{
    let k = choose|k: u64| #[trigger] s.contains_key(k) && k <= address && address + 4 <= k + s[k].data@.len();
    assert forall|x: int| address <= x < address + 4 implies (#[trigger] vw(s, x)) is Some by {
        assert(covers(s, k, x));
        lemma_vw_some(s, k, x);
    }
}

/// C16's `get32` postcondition, restated on the content map
pub proof fn lemma_get32_map(s: SecMap, e: Endian, address: u64)
    requires sections_wf(s), within32(s, address),
    ensures
        endian_value(e, bytes_at(s, address, 4)) == read32_map(bytes_of(s), e, address),
        read32_map(bytes_of(s), e, address) <= u32::MAX,
        vw(s, address as int) is Some,
        address + 4 <= u64::MAX,
{
    lemma_within32_mapped(s, address);
    let a = bytes_at(s, address, 4);
    let b = Seq::new(4, |i: int| bytes_of(s)[(address + i) as u64].0);
    assert forall|i: int| 0 <= i < 4 implies a[i] == b[i] by {
        assert(vw(s, address + i) is Some);
        assert(bytes_of(s).contains_key((address + i) as u64));
    }
    assert(a =~= b);
    lemma_value_bound(a);
    lemma2_to64();
    assert(pow2(32) == 0x1_0000_0000);
}

/// whether a word lies inside one section depends on the keys and lengths of the sections only
/// (opaque: its quantifier is only ever needed inside the lemmas below)
#[verifier::opaque]
pub open spec fn same_shape(s0: SecMap, s1: SecMap) -> bool {
    forall|k: u64| #![trigger s1.contains_key(k)] #![trigger s0.contains_key(k)]
        s1.contains_key(k) == s0.contains_key(k)
        && (s0.contains_key(k) ==> s1[k].data@.len() == s0[k].data@.len() && s1[k].permissions == s0[k].permissions)
}

/// the `shape` postcondition of backing::Memory::set32 (unit C16), as the opaque predicate
pub proof fn lemma_same_shape_intro(s0: SecMap, s1: SecMap)
    requires
        forall|k: u64| #![trigger s1.contains_key(k)] #![trigger s0.contains_key(k)]
            s1.contains_key(k) == s0.contains_key(k)
            && (s0.contains_key(k) ==> s1[k].data@.len() == s0[k].data@.len() && s1[k].permissions == s0[k].permissions),
    ensures same_shape(s0, s1),
{
    reveal(same_shape);
}

pub proof fn lemma_same_shape_refl(s0: SecMap)
    ensures same_shape(s0, s0),
{
    reveal(same_shape);
}

pub proof fn lemma_same_shape_within32(s0: SecMap, s1: SecMap, address: u64)
    requires same_shape(s0, s1),
    ensures within32(s1, address) == within32(s0, address),
{
    reveal(same_shape);
    if within32(s0, address) {
        let k = choose|k: u64| #[trigger] s0.contains_key(k) && k <= address && address + 4 <= k + s0[k].data@.len();
        assert(s1.contains_key(k));
    }
    if within32(s1, address) {
        let k = choose|k: u64| #[trigger] s1.contains_key(k) && k <= address && address + 4 <= k + s1[k].data@.len();
        assert(s0.contains_key(k));
    }
}

/// ... and so does whether an address is mapped
pub proof fn lemma_same_shape_domain(s0: SecMap, s1: SecMap, x: u64)
    requires same_shape(s0, s1),
    ensures (vw(s1, x as int) is Some) == (vw(s0, x as int) is Some),
{
    reveal(same_shape);
    lemma_vw_inv(s0, x as int);
    lemma_vw_inv(s1, x as int);
    if vw(s0, x as int) is Some {
        let k = choose|k: u64| covers(s0, k, x as int);
        assert(s1.contains_key(k));
        assert(covers(s1, k, x as int));
    }
    if vw(s1, x as int) is Some {
        let k = choose|k: u64| covers(s1, k, x as int);
        assert(s0.contains_key(k));
        assert(covers(s0, k, x as int));
    }
}

pub proof fn lemma_same_shape_trans(s0: SecMap, s1: SecMap, s2: SecMap)
    requires same_shape(s0, s1), same_shape(s1, s2),
    ensures same_shape(s0, s2),
{
    reveal(same_shape);
    assert forall|k: u64| #![trigger s2.contains_key(k)] #![trigger s0.contains_key(k)]
        s2.contains_key(k) == s0.contains_key(k)
        && (s0.contains_key(k) ==> s2[k].data@.len() == s0[k].data@.len() && s2[k].permissions == s0[k].permissions) by {
        assert(s1.contains_key(k) == s0.contains_key(k));
        assert(s2.contains_key(k) == s1.contains_key(k));
    }
}

/// `v as u32` (template helper, reached through the logged rewrite R-cast-fn; the body is the cast itself)
pub fn low32(v: u64) -> (r: u32)
    ensures r == lo32(v),
{
    proof { lemma_lo32(v); }
    #[verifier::truncate] (v as u32)
}

/// `v as u32` keeps the low 32 bits
pub proof fn lemma_lo32(v: u64)
    ensures (v as u32) == lo32(v),
{
    assert((v as u32) == (v % 0x1_0000_0000) as u32) by (bit_vector);
}

// ---- generic stepwise pass ------------------------------------------------------------------------

/// `k` steps of a pass whose i-th step is `step(content, i)`; the pass stops at the first error
#[verifier::opaque]
pub open spec fn run_steps(step: spec_fn(ByteMap, int) -> RunState, m0: ByteMap, k: nat) -> RunState
    decreases k,
{
    if k == 0 {
        run_ok(m0)
    } else {
        let p = run_steps(step, m0, (k - 1) as nat);
        if p.err { p } else { step(p.mem, k - 1) }
    }
}

pub proof fn lemma_run_steps_zero(step: spec_fn(ByteMap, int) -> RunState, m0: ByteMap)
    ensures run_steps(step, m0, 0) == run_ok(m0),
{
    reveal_with_fuel(run_steps, 2);
}

pub proof fn lemma_run_steps_next(step: spec_fn(ByteMap, int) -> RunState, m0: ByteMap, k: nat)
    ensures
        run_steps(step, m0, k + 1) == ({
            let p = run_steps(step, m0, k);
            if p.err { p } else { step(p.mem, k as int) }
        }),
{
    reveal_with_fuel(run_steps, 2);
    assert(((k + 1) - 1) as nat == k);
}

/// an error is final
pub proof fn lemma_run_steps_sticky(step: spec_fn(ByteMap, int) -> RunState, m0: ByteMap, k: nat, n: nat)
    requires k <= n, run_steps(step, m0, k).err,
    ensures run_steps(step, m0, n) == run_steps(step, m0, k),
    decreases n - k,
{
    if k < n {
        lemma_run_steps_next(step, m0, k);
        lemma_run_steps_sticky(step, m0, k + 1, n);
    }
}

// ---- MIPS -----------------------------------------------------------------------------------------

pub type Dynamic = goblin::elf::dynamic::Dynamic;
pub type Dyn = goblin::elf::dynamic::Dyn;

pub open spec fn DT_MIPS_LOCAL_GOTNO_() -> u64 { 0x7000_000a }
pub open spec fn DT_MIPS_GOTSYM_() -> u64 { 0x7000_0013 }
pub open spec fn DT_MIPS_SYMTABNO_() -> u64 { 0x7000_0011 }

/// value of the first dynamic entry with tag `tag`
pub open spec fn dyns_first(s: Seq<Dyn>, tag: u64) -> Option<u64>
    decreases s.len(),
{
    if s.len() == 0 { None } else if s[0].d_tag == tag { Some(s[0].d_val) } else { dyns_first(s.drop_first(), tag) }
}

pub open spec fn dyn_find(d: Option<Dynamic>, tag: u64) -> Option<u64> {
    match d { None => None, Some(d) => dyns_first(d.dyns@, tag) }
}

pub proof fn lemma_dyns_first_hit(s: Seq<Dyn>, tag: u64, i: int)
    requires 0 <= i < s.len(), s[i].d_tag == tag, forall|j: int| 0 <= j < i ==> (#[trigger] s[j]).d_tag != tag,
    ensures dyns_first(s, tag) == Some(s[i].d_val),
    decreases s.len(),
{
    if i > 0 {
        assert(s[0].d_tag != tag);
        let t = s.drop_first();
        assert(t[i - 1] == s[i]);
        assert forall|j: int| 0 <= j < i - 1 implies (#[trigger] t[j]).d_tag != tag by { assert(t[j] == s[j + 1]); }
        lemma_dyns_first_hit(t, tag, i - 1);
    }
}

pub proof fn lemma_dyns_first_miss(s: Seq<Dyn>, tag: u64)
    requires forall|j: int| 0 <= j < s.len() ==> (#[trigger] s[j]).d_tag != tag,
    ensures dyns_first(s, tag) is None,
    decreases s.len(),
{
    if s.len() > 0 {
        assert(s[0].d_tag != tag);
        let t = s.drop_first();
        assert forall|j: int| 0 <= j < t.len() implies (#[trigger] t[j]).d_tag != tag by { assert(t[j] == s[j + 1]); }
        lemma_dyns_first_miss(t, tag);
    }
}

/// `r` is the value of the first entry of `s` with tag `tag` (None: there is none) - the shape in which the code's
/// `iter().find(..).map(..)` reports it
pub open spec fn dyns_first_is(s: Seq<Dyn>, tag: u64, r: Option<u64>) -> bool {
    &&& r matches Some(v) ==> exists|i: int| 0 <= i < s.len() && (#[trigger] s[i]).d_tag == tag && s[i].d_val == v
            && forall|j: int| 0 <= j < i ==> (#[trigger] s[j]).d_tag != tag
    &&& r is None ==> forall|j: int| 0 <= j < s.len() ==> (#[trigger] s[j]).d_tag != tag
}

pub proof fn lemma_dyns_first_is(s: Seq<Dyn>, tag: u64, r: Option<u64>)
    requires dyns_first_is(s, tag, r),
    ensures r == dyns_first(s, tag),
{
    match r {
        Some(v) => {
            let i = choose|i: int| 0 <= i < s.len() && (#[trigger] s[i]).d_tag == tag && s[i].d_val == v
                && forall|j: int| 0 <= j < i ==> (#[trigger] s[j]).d_tag != tag;
            lemma_dyns_first_hit(s, tag, i);
        },
        None => { lemma_dyns_first_miss(s, tag); },
    }
}

/// (trigger helper) the facts get_dynamic's postcondition gives, as an equation with dyn_find
pub proof fn lemma_dyn_find(d: Option<Dynamic>, tag: u64)
    ensures
        forall|r: Option<u64>| (d is Some && #[trigger] dyns_first_is(d->Some_0.dyns@, tag, r)) ==> r == dyn_find(d, tag),
        d is None ==> dyn_find(d, tag) is None,
{
    assert forall|r: Option<u64>| (d is Some && #[trigger] dyns_first_is(d->Some_0.dyns@, tag, r)) implies r == dyn_find(d, tag) by {
        lemma_dyns_first_is(d->Some_0.dyns@, tag, r);
    }
}

/// the four dynamic entries that describe a MIPS global offset table
pub struct MipsGot {
    pub local_gotno: u64,   // DT_MIPS_LOCAL_GOTNO: number of local entries = index of the first global entry
    pub gotsym: u64,        // DT_MIPS_GOTSYM: index of the first dynamic symbol that has a GOT entry
    pub symtabno: u64,      // DT_MIPS_SYMTABNO: number of dynamic symbols
    pub pltgot: u64,        // DT_PLTGOT: link-time address of the GOT
}

pub open spec fn mips_tags(d: Option<Dynamic>) -> Option<MipsGot> {
    if dyn_find(d, DT_MIPS_LOCAL_GOTNO_()) is Some && dyn_find(d, DT_MIPS_GOTSYM_()) is Some
        && dyn_find(d, DT_MIPS_SYMTABNO_()) is Some && dyn_find(d, goblin::elf::dynamic::DT_PLTGOT) is Some {
        Some(MipsGot {
            local_gotno: dyn_find(d, DT_MIPS_LOCAL_GOTNO_()).unwrap(), gotsym: dyn_find(d, DT_MIPS_GOTSYM_()).unwrap(),
            symtabno: dyn_find(d, DT_MIPS_SYMTABNO_()).unwrap(), pltgot: dyn_find(d, goblin::elf::dynamic::DT_PLTGOT).unwrap(),
        })
    } else {
        None
    }
}

/// number of GOT entries: the local ones and one per dynamic symbol from gotsym on
pub open spec fn got_len(g: MipsGot) -> int { g.local_gotno + (g.symtabno - g.gotsym) }

/// run-time address of GOT entry `i`
pub open spec fn got_addr(g: MipsGot, base: u64, i: int) -> u64 { (g.pltgot + base + 4 * i) as u64 }

/// pass 1, entry i: every GOT entry + B (32-bit modular)
pub open spec fn mips_got_step(s0: SecMap, e: Endian, base: u64, g: MipsGot) -> spec_fn(ByteMap, int) -> RunState {
    |m: ByteMap, i: int| {
        let a = got_addr(g, base, i);
        if within32(s0, a) { run_ok(write32_map(m, e, a, add32(read32_map(m, e, a) as u32, lo32(base)))) } else { run_err(m) }
    }
}

/// pass 2, step k: the GOT entry of dynamic symbol gotsym + k: an UNDEFINED symbol gets S (it must resolve), a defined
/// one keeps the entry pass 1 rebased
pub open spec fn mips_sym_step(s0: SecMap, e: Endian, syms: SymTab, dynsyms: Seq<Sym>, tab: Strtab, base: u64, g: MipsGot) -> spec_fn(ByteMap, int) -> RunState {
    |m: ByteMap, k: int| {
        let j = g.gotsym + k;
        let a = got_addr(g, base, g.local_gotno + k);
        if j >= dynsyms.len() {
            run_err(m)
        } else if dynsyms[j].st_shndx == 0 {
            let name = tab.name_at(dynsyms[j].st_name);
            if syms.contains_key(name) && within32(s0, a) { run_ok(write32_map(m, e, a, lo32(syms[name]))) } else { run_err(m) }
        } else {
            run_ok(m)
        }
    }
}

/// pass 3, entry i of .rel.dyn: R_MIPS_REL32 = A + S with the addend in place: an entry that names a symbol with a GOT
/// entry takes S from that (relocated) entry, every other entry is relative to B; other types are ignored
pub open spec fn mips_rel_step(s0: SecMap, e: Endian, base: u64, g: MipsGot, rels: Seq<Reloc>) -> spec_fn(ByteMap, int) -> RunState {
    |m: ByteMap, i: int| {
        let r = rels[i];
        let a = (r.r_offset + base) as u64;
        if r.r_type != goblin::elf::reloc::R_MIPS_REL32 {
            run_ok(m)
        } else if !within32(s0, a) {
            run_err(m)
        } else if g.gotsym <= r.r_sym < g.symtabno {
            let ga = got_addr(g, base, g.local_gotno + (r.r_sym - g.gotsym));
            if within32(s0, ga) { run_ok(write32_map(m, e, a, add32(read32_map(m, e, a) as u32, read32_map(m, e, ga) as u32))) } else { run_err(m) }
        } else {
            run_ok(write32_map(m, e, a, add32(read32_map(m, e, a) as u32, lo32(base))))
        }
    }
}

/// the three passes, in order; an object without the four GOT tags is refused
pub open spec fn mips_run(s0: SecMap, e: Endian, syms: SymTab, p: Parsed, base: u64, m0: ByteMap) -> RunState {
    match mips_tags(p.dynamic) {
        None => run_err(m0),
        Some(g) => {
            let r1 = run_steps(mips_got_step(s0, e, base, g), m0, got_len(g) as nat);
            if r1.err { r1 } else {
                let r2 = run_steps(mips_sym_step(s0, e, syms, p.dynsyms@, p.dynstrtab, base, g), r1.mem, (g.symtabno - g.gotsym) as nat);
                if r2.err { r2 } else { run_steps(mips_rel_step(s0, e, base, g, p.dynrels@), r2.mem, p.dynrels@.len()) }
            }
        },
    }
}

/// "well-formed object" for the MIPS passes: gotsym <= symtabno; the GOT does not wrap the address space; symtabno is
/// an index (fits usize); the name offset of every dynamic symbol with a GOT entry is valid; the GOT entry of an
/// undefined symbol that resolves is mapped (backing::Memory::set32 panics on an unmapped address); r_offset + base of
/// the .rel.dyn entries does not wrap
pub open spec fn mips_wf(syms: SymTab, p: Parsed, base: u64, m0: ByteMap) -> bool {
    mips_tags(p.dynamic) matches Some(g) ==> {
        &&& g.gotsym <= g.symtabno
        &&& g.pltgot + base + 4 * got_len(g) <= u64::MAX
        &&& g.symtabno <= usize::MAX
        &&& forall|j: int| g.gotsym <= j < g.symtabno && j < p.dynsyms@.len() ==> {
                &&& p.dynstrtab.valid_at((#[trigger] p.dynsyms@[j]).st_name)
                &&& (p.dynsyms@[j].st_shndx == 0 && syms.contains_key(p.dynstrtab.name_at(p.dynsyms@[j].st_name)))
                        ==> m0.contains_key(got_addr(g, base, g.local_gotno + (j - g.gotsym)))
            }
        &&& forall|i: int| 0 <= i < p.dynrels@.len() ==> (#[trigger] p.dynrels@[i]).r_offset + base <= u64::MAX
    }
}

// ---- derive(Clone) of backing::Memory ---------------------------------------------------------------

pub proof fn lemma_same_content(s0: SecMap, s1: SecMap)
    requires same_content(s0, s1), sections_wf(s0),
    ensures bytes_of(s1) == bytes_of(s0), sections_wf(s1),
{
    assert(sections_wf(s1)) by {
        assert forall|a: u64| #[trigger] s1.contains_key(a) implies a + s1[a].data@.len() <= u64::MAX by { assert(s0.contains_key(a)); }
        assert forall|a: u64, b: u64| #![trigger s1.contains_key(a), s1.contains_key(b)]
            s1.contains_key(a) && s1.contains_key(b) && a < b implies a + s1[a].data@.len() <= b by { assert(s0.contains_key(a) && s0.contains_key(b)); }
    }
    assert forall|x: int| #[trigger] vw(s1, x) == vw(s0, x) by {
        lemma_vw_inv(s0, x);
        if vw(s0, x) is Some {
            let k = choose|k: u64| covers(s0, k, x);
            assert(s1.contains_key(k));
            assert(covers(s1, k, x));
            lemma_vw_some(s0, k, x);
            lemma_vw_some(s1, k, x);
        } else {
            lemma_vw_inv(s1, x);
            if vw(s1, x) is Some {
                let k1 = choose|k1: u64| covers(s1, k1, x);
                assert(s0.contains_key(k1));
                assert(covers(s0, k1, x));
            }
        }
    }
    let m1 = bytes_of(s1);
    let m0 = bytes_of(s0);
    assert forall|x: u64| m1.contains_key(x) == m0.contains_key(x) && (m1.contains_key(x) ==> m1[x] == m0[x]) by {
        assert(vw(s1, x as int) == vw(s0, x as int));
    }
    assert(m1 =~= m0);
}

// ---- function entries of the linked program ----------------------------------------------------------

/// the entries one loaded object reports: its defined function symbols, its program entry and its user entries, each at
/// address + ITS OWN base (spec_entries is the specification of `<Elf as Loader>::function_entries`, entries_spec.rs)
pub open spec fn obj_entries(e: Elf) -> Seq<EntrySpec> {
    spec_entries(goblin::elf::parsed(e.bytes@), e.user_function_entries@, e.base_address)
}

/// ... of a sequence of loaded objects, in sequence order
pub open spec fn link_entries(objs: Seq<Elf>) -> Seq<EntrySpec>
    decreases objs.len(),
{
    if objs.len() == 0 { Seq::<EntrySpec>::empty() } else { link_entries(objs.drop_last()) + obj_entries(objs.last()) }
}

/// the linker's own user entries: absolute addresses, no name
pub open spec fn linker_user_entries(users: Seq<u64>) -> Seq<EntrySpec> {
    Seq::new(users.len(), |i: int| EntrySpec { address: users[i] as int, name: EntryName::Anon })
}

/// `ks` lists every key of `m` exactly once
pub open spec fn key_listing<V>(ks: Seq<String>, m: Map<String, V>) -> bool {
    &&& ks.no_duplicates()
    &&& forall|k: String| #[trigger] ks.contains(k) <==> m.contains_key(k)
}

/// the objects behind the first n (key, object) pairs a BTreeMap iterator yields
pub open spec fn pairs_objs(s: Seq<(&String, &Elf)>, n: int) -> Seq<Elf> {
    Seq::new(n as nat, |j: int| *s[j].1)
}

/// ... and the keys
pub open spec fn pairs_keys(s: Seq<(&String, &Elf)>, n: int) -> Seq<String> {
    Seq::new(n as nat, |j: int| *s[j].0)
}

pub proof fn lemma_link_entries_step(s: Seq<(&String, &Elf)>, i: int)
    requires 0 <= i < s.len(),
    ensures link_entries(pairs_objs(s, i + 1)) == link_entries(pairs_objs(s, i)) + obj_entries(*s[i].1),
{
    assert(pairs_objs(s, i + 1).drop_last() =~= pairs_objs(s, i));
    assert(pairs_objs(s, i + 1).last() == *s[i].1);
}

pub proof fn lemma_entries_match_concat(a: Seq<FunctionEntry>, sa: Seq<EntrySpec>, b: Seq<FunctionEntry>, sb: Seq<EntrySpec>)
    requires entries_match(a, sa), entries_match(b, sb),
    ensures entries_match(a + b, sa + sb),
{
    assert forall|i: int| 0 <= i < (a + b).len() implies entry_matches(#[trigger] (a + b)[i], (sa + sb)[i]) by {
        if i < a.len() { assert((a + b)[i] == a[i] && (sa + sb)[i] == sa[i]); }
        else { assert((a + b)[i] == b[i - a.len()] && (sa + sb)[i] == sb[i - a.len()]); }
    }
}

pub proof fn lemma_entries_match_push(a: Seq<FunctionEntry>, sa: Seq<EntrySpec>, x: FunctionEntry, sx: EntrySpec)
    requires entries_match(a, sa), entry_matches(x, sx),
    ensures entries_match(a.push(x), sa.push(sx)),
{
    assert forall|i: int| 0 <= i < a.push(x).len() implies entry_matches(#[trigger] a.push(x)[i], sa.push(sx)[i]) by {
        if i < a.len() { assert(a.push(x)[i] == a[i] && sa.push(sx)[i] == sa[i]); }
    }
}

/// the (key, object) pairs of a complete duplicate-free iteration give a key listing, and looking the keys up gives the objects
pub proof fn lemma_pairs_listing(s: Seq<(&String, &Elf)>, m: Map<String, Elf>)
    requires
        s.no_duplicates(),
        forall|j: int| 0 <= j < s.len() ==> m.contains_key(*(#[trigger] s[j]).0) && m[*s[j].0] == *s[j].1,
        forall|k: String| #[trigger] m.contains_key(k) ==> exists|j: int| 0 <= j < s.len() && *(#[trigger] s[j]).0 == k,
    ensures
        key_listing(pairs_keys(s, s.len() as int), m),
        pairs_keys(s, s.len() as int).map_values(|k: String| m[k]) == pairs_objs(s, s.len() as int),
{
    let ks = pairs_keys(s, s.len() as int);
    assert forall|i: int, j: int| 0 <= i < ks.len() && 0 <= j < ks.len() && i != j implies ks[i] != ks[j] by {
        if ks[i] == ks[j] {
            assert(*s[i].0 == *s[j].0);
            assert(*s[i].1 == m[*s[i].0] && *s[j].1 == m[*s[j].0]);
            assert(s[i] == s[j]);
        }
    }
    assert forall|k: String| #[trigger] ks.contains(k) <==> m.contains_key(k) by {
        if ks.contains(k) {
            let j = choose|j: int| 0 <= j < ks.len() && ks[j] == k;
            assert(m.contains_key(*s[j].0));
        }
        if m.contains_key(k) {
            let j = choose|j: int| 0 <= j < s.len() && *(#[trigger] s[j]).0 == k;
            assert(ks[j] == k);
        }
    }
    assert(ks.map_values(|k: String| m[k]) =~= pairs_objs(s, s.len() as int));
}

// ---- symbols of the linked program ---------------------------------------------------------------------

/// the symbols one loaded object reports, each at address + ITS OWN base (spec_symbols is the specification of
/// `Elf::symbols`, symbols_spec.rs)
pub open spec fn obj_symbols(e: Elf) -> Seq<SymSpec> {
    spec_symbols(goblin::elf::parsed(e.bytes@), e.base_address)
}

pub open spec fn link_symbols(objs: Seq<Elf>) -> Seq<SymSpec>
    decreases objs.len(),
{
    if objs.len() == 0 { Seq::<SymSpec>::empty() } else { link_symbols(objs.drop_last()) + obj_symbols(objs.last()) }
}

pub proof fn lemma_link_symbols_step(s: Seq<(&String, &Elf)>, i: int)
    requires 0 <= i < s.len(),
    ensures link_symbols(pairs_objs(s, i + 1)) == link_symbols(pairs_objs(s, i)) + obj_symbols(*s[i].1),
{
    assert(pairs_objs(s, i + 1).drop_last() =~= pairs_objs(s, i));
    assert(pairs_objs(s, i + 1).last() == *s[i].1);
}

pub proof fn lemma_views_concat(a: Seq<Symbol>, b: Seq<Symbol>)
    ensures views(a + b) == views(a) + views(b),
{
    assert(views(a + b) =~= views(a) + views(b));
}
