// ======================================================================================
// units/C19/elf.rs — lib/loader/elf/elf.rs under contract: Elf::{base_address, add_user_function, elf,
// exported_symbols, symbols} and impl Loader for Elf::{memory, function_entries, program_entry,
// architecture, symbols}.  Specifications: image_spec.rs, entries_spec.rs, symbols_spec.rs.
// NOT under contract (see meta.json): Elf::new (architecture selection), from_file*, dt_needed, as_any.
// ======================================================================================
//@ source lib/loader/elf/elf.rs

impl Elf {
    /// data invariant of loader::Elf: goblin parses the bytes (Elf::new only builds an Elf after a
    /// successful `goblin::elf::Elf::parse(&bytes)`; the parser is a function of the bytes)
    pub open spec fn wf(&self) -> bool { goblin::elf::parse_ok(self.bytes@) }

    /// the parsed image all methods work on: a function of `self.bytes` only
    pub open spec fn image_of(&self) -> Parsed<'_> { goblin::elf::parsed(self.bytes@) }

//@ fn impl Elf :: fn base_address
//@ spec
    ensures /*@base*/ r == self.base_address,
//@ end

//@ fn impl Elf :: fn add_user_function
//@ spec
    ensures
        /*@pushed*/ final(self).user_function_entries@ == old(self).user_function_entries@.push(address),
        /*@frame*/ final(self).base_address == old(self).base_address && final(self).bytes == old(self).bytes
            && final(self).architecture == old(self).architecture,
//@ end

//@ fn impl Elf :: fn elf
//@ spec
    requires self.wf(),
    ensures /*@parsed*/ r == goblin::elf::parsed(self.bytes@),
//@ end

//@ fn impl Elf :: fn exported_symbols loops=1
//@ rewrite 1 `for sym in elf.dynsyms.iter()` => `for sym in it0: elf.dynsyms.iter()` ## R-ghost-iter-name: names the ghost iterator of the for loop so that invariants can mention it; no executable change
//@ rewrite 1 `{ continue; } if` => `{ } else if` ## R-continue: `if C { continue; } if D { S }` at the end of a loop body is by definition `if C { } else if D { S }` (Verus: "for-loops do not yet support continue")
//@ spec
    requires
        self.wf(),
        exported_wf(goblin::elf::parsed(self.bytes@).dynsyms@, goblin::elf::parsed(self.bytes@).dynstrtab, self.base_address),
    ensures
        /*@exported*/ views(r@) == exported_syms(goblin::elf::parsed(self.bytes@).dynsyms@, goblin::elf::parsed(self.bytes@).dynstrtab, self.base_address),
//@ before 0 `for sym in it0:`
    let ghost p = goblin::elf::parsed(self.bytes@);
    let ghost base = self.base_address;
    proof {
        assert(p.dynsyms@.take(0) =~= Seq::<Sym>::empty());
        assert(views(v@) =~= Seq::<SymSpec>::empty());
    }
//@ loop 0
    invariant
        /*@exp_ctx*/ elf == p && p == goblin::elf::parsed(self.bytes@) && base == self.base_address && self.wf() && exported_wf(p.dynsyms@, p.dynstrtab, base),
        /*@exp_prefix*/ views(v@) == exported_syms(p.dynsyms@.take(it0.index@ as int), p.dynstrtab, base),
//@ before 0 `if sym.st_value == 0 || sym.st_shndx == 0`
    let ghost i = it0.index@ as int;
    let ghost v0 = v@;
    proof {
        assert(*sym == p.dynsyms@[i]);
        lemma_exported_syms_step(p.dynsyms@, p.dynstrtab, base, i);
        assert(is_exported(p.dynsyms@[i]) ==> p.dynsyms@[i].st_value + base <= u64::MAX && p.dynstrtab.valid_at(p.dynsyms@[i].st_name));
    }
//@ before 0 `} } v }`
    proof {
        lemma_views_push(v0, v@[v@.len() - 1]);
        assert(v@ =~= v0.push(v@[v@.len() - 1]));
    }
//@ before 0 `v }`
    proof {
        assert(p.dynsyms@.take(p.dynsyms@.len() as int) =~= p.dynsyms@);
    }
//@ end

//@ fn impl Elf :: fn symbols loops=3
//@ rewrite 1 `for sym in elf.dynsyms.iter()` => `for sym in it0: elf.dynsyms.iter()` ## R-ghost-iter-name: names the ghost iterator of the for loop so that invariants can mention it; no executable change
//@ rewrite 1 `for sym in elf.syms.iter()` => `for sym in it1: elf.syms.iter()` ## R-ghost-iter-name: as above
//@ rewrite 1 `for rel in elf.pltrelocs.iter()` => `for rel in it2: elf.pltrelocs.iter()` ## R-ghost-iter-name: as above
//@ rewrite 2 `{ continue; }` => `{ } else {` ## R-continue: `if C { continue; } REST` at the end of a loop body is by definition `if C { } else { REST }` (Verus: "for-loops do not yet support continue"); part 1 of 2 (first and second loop)
//@ rewrite 1 `} for sym in it1:` => `} } for sym in it1:` ## R-continue: part 2 of 2 for the first loop, closes the else block at the end of the loop body
//@ rewrite 1 `} for rel in it2:` => `} } for rel in it2:` ## R-continue: part 2 of 2 for the second loop
//@ rewrite 1 `let sym = match elf.dynsyms.get(rel.r_sym) { Some(sym) => sym, None => continue, };` => `if let Some(sym) = elf.dynsyms.get(rel.r_sym) {` ## R-continue: `let x = match E { Some(x) => x, None => continue, }; REST` at the end of a loop body is by definition `if let Some(x) = E { REST }`; part 1 of 2 (third loop)
//@ rewrite 1 `symbols.sort();` => `vec_sort(&mut symbols);` ## R-std-standin: `V.sort()` replaced by the stand-in of units/C19/std_local.rs (Verus loses the connection between a Vec and the `&mut [T]` it derefs to; the stand-in's body calls the real `sort`)
//@ rewrite 1 `} vec_sort(` => `} } vec_sort(` ## R-continue: part 2 of 2 for the third loop, closes the `if let` block at the end of the loop body
//@ spec
    requires
        self.wf(),
        symbols_wf(goblin::elf::parsed(self.bytes@), self.base_address),
    ensures
        /*@symbols*/ views(r@) == spec_symbols(goblin::elf::parsed(self.bytes@), self.base_address),
        /*@listing*/ asc_listing(views(r@), raw_symbols(goblin::elf::parsed(self.bytes@), self.base_address).to_set()),
//@ before 0 `for sym in it0:`
    let ghost p = goblin::elf::parsed(self.bytes@);
    let ghost base = self.base_address;
    proof {
        assert(p.dynsyms@.take(0) =~= Seq::<Sym>::empty());
        assert(views(symbols@) =~= Seq::<SymSpec>::empty());
    }
//@ loop 0
    invariant
        /*@dyn_ctx*/ elf == p && p == goblin::elf::parsed(self.bytes@) && base == self.base_address && self.wf() && symbols_wf(p, base),
        /*@dyn_prefix*/ views(symbols@) == value_syms(p.dynsyms@.take(it0.index@ as int), p.dynstrtab, base),
//@ before 0 `if sym.st_value == 0`
    let ghost i = it0.index@ as int;
    let ghost v0 = symbols@;
    proof {
        assert(*sym == p.dynsyms@[i]);
        lemma_value_syms_step(p.dynsyms@, p.dynstrtab, base, i);
        assert(p.dynsyms@[i].st_value != 0 ==> p.dynsyms@[i].st_value + base <= u64::MAX && p.dynstrtab.valid_at(p.dynsyms@[i].st_name));
    }
//@ before 0 `} } for sym in it1:`
    proof {
        lemma_views_push(v0, symbols@[symbols@.len() - 1]);
        assert(symbols@ =~= v0.push(symbols@[symbols@.len() - 1]));
    }
//@ before 0 `for sym in it1:`
    let ghost r1 = value_syms(p.dynsyms@, p.dynstrtab, base);
    proof {
        assert(p.dynsyms@.take(p.dynsyms@.len() as int) =~= p.dynsyms@);
        assert(p.syms@.take(0) =~= Seq::<Sym>::empty());
        assert(r1 + Seq::<SymSpec>::empty() =~= r1);
    }
//@ loop 1
    invariant
        /*@sym_ctx*/ elf == p && p == goblin::elf::parsed(self.bytes@) && base == self.base_address && self.wf() && symbols_wf(p, base)
            && r1 == value_syms(p.dynsyms@, p.dynstrtab, base),
        /*@sym_prefix*/ views(symbols@) == r1 + value_syms(p.syms@.take(it1.index@ as int), p.strtab, base),
//@ before 1 `if sym.st_value == 0`
    let ghost i = it1.index@ as int;
    let ghost v0 = symbols@;
    proof {
        assert(*sym == p.syms@[i]);
        lemma_value_syms_step(p.syms@, p.strtab, base, i);
        assert(p.syms@[i].st_value != 0 ==> p.syms@[i].st_value + base <= u64::MAX && p.strtab.valid_at(p.syms@[i].st_name));
    }
//@ before 0 `} } for rel in it2:`
    proof {
        lemma_views_push(v0, symbols@[symbols@.len() - 1]);
        assert(symbols@ =~= v0.push(symbols@[symbols@.len() - 1]));
        let pre = value_syms(p.syms@.take(i), p.strtab, base);
        assert((r1 + pre).push(sview(symbols@[symbols@.len() - 1])) =~= r1 + pre.push(sview(symbols@[symbols@.len() - 1])));
    }
//@ before 0 `for rel in it2:`
    let ghost r2 = r1 + value_syms(p.syms@, p.strtab, base);
    proof {
        assert(p.syms@.take(p.syms@.len() as int) =~= p.syms@);
        assert(p.pltrelocs@.take(0) =~= Seq::<Reloc>::empty());
        assert(r2 + Seq::<SymSpec>::empty() =~= r2);
    }
//@ loop 2
    invariant
        /*@plt_ctx*/ elf == p && p == goblin::elf::parsed(self.bytes@) && base == self.base_address && self.wf() && symbols_wf(p, base)
            && r2 == value_syms(p.dynsyms@, p.dynstrtab, base) + value_syms(p.syms@, p.strtab, base),
        /*@plt_prefix*/ views(symbols@) == r2 + plt_syms(p.pltrelocs@.take(it2.index@ as int), p.dynsyms@, p.dynstrtab, base),
//@ before 0 `if let Some(sym) = elf.dynsyms.get(rel.r_sym)`
    let ghost i = it2.index@ as int;
    let ghost v0 = symbols@;
    proof {
        assert(*rel == p.pltrelocs@[i]);
        lemma_plt_syms_step(p.pltrelocs@, p.dynsyms@, p.dynstrtab, base, i);
        assert(p.pltrelocs@[i].r_sym < p.dynsyms@.len() ==> p.pltrelocs@[i].r_offset + base <= u64::MAX
            && p.dynstrtab.valid_at(p.dynsyms@[p.pltrelocs@[i].r_sym as int].st_name));
    }
//@ before 0 `} } vec_sort(`
    proof {
        lemma_views_push(v0, symbols@[symbols@.len() - 1]);
        assert(symbols@ =~= v0.push(symbols@[symbols@.len() - 1]));
        let pre = plt_syms(p.pltrelocs@.take(i), p.dynsyms@, p.dynstrtab, base);
        assert((r2 + pre).push(sview(symbols@[symbols@.len() - 1])) =~= r2 + pre.push(sview(symbols@[symbols@.len() - 1])));
    }
//@ before 0 `vec_sort(&mut symbols);`
    let ghost raw = symbols@;
    proof {
        assert(p.pltrelocs@.take(p.pltrelocs@.len() as int) =~= p.pltrelocs@);
    }
//@ after 0 `vec_sort(&mut symbols);`
    let ghost s1 = symbols@;
//@ after 0 `symbols.dedup();`
    proof {
        if views(raw) == raw_symbols(p, base) {
            lemma_sort_dedup(raw, s1, symbols@, raw_symbols(p, base));
        }
    }
//@ end

} // impl Elf

impl Loader for Elf {
    /// "well-formed ELF file and base address" for `memory()`: every PT_LOAD header has p_memsz >= p_filesz,
    /// its file range and memory size fit usize, and p_vaddr + base + p_memsz <= 2^64 - 1 (no address wrap)
    open spec fn memory_req(&self) -> bool {
        self.wf() && segs_wf(goblin::elf::parsed(self.bytes@).program_headers@, self.base_address)
    }

    /// "well-formed" for `function_entries()`: for every defined function symbol st_value + base does not wrap and
    /// st_name is a valid string-table offset; e_entry + base and every user entry + base do not wrap
    open spec fn function_entries_req(&self) -> bool {
        self.wf() && entries_wf(goblin::elf::parsed(self.bytes@), self.user_function_entries@, self.base_address)
    }

    /// e_entry + base does not wrap
    open spec fn program_entry_req(&self) -> bool {
        self.wf() && goblin::elf::parsed(self.bytes@).header.e_entry + self.base_address <= u64::MAX
    }

    /// "well-formed" for `symbols()`: for every symbol with st_value != 0 (both tables) st_value + base does not
    /// wrap and st_name is a valid string-table offset; for every PLT relocation that names a dynamic symbol
    /// r_offset + base does not wrap and that symbol's st_name is a valid offset
    open spec fn symbols_req(&self) -> bool {
        self.wf() && symbols_wf(goblin::elf::parsed(self.bytes@), self.base_address)
    }

    /// `architecture()` of a single Elf has no precondition
    open spec fn architecture_req(&self) -> bool { true }

//@ fn impl Loader for Elf :: fn memory nopub loops=1
//@ rewrite 1 `for ph in elf.program_headers` => `for ph in it0: elf.program_headers` ## R-ghost-iter-name: names the ghost iterator of the for loop so that invariants can mention it; no executable change
//@ closure 0 || -> (r0: Error)
    ensures r0 is FalconInternal,
//@ spec
    ensures
        /*@ok_iff_in_file*/ r is Ok <==> segs_in_file(self.bytes@, goblin::elf::parsed(self.bytes@).program_headers@),
        /*@err_kind*/ r matches Err(e) ==> e is FalconInternal,
        /*@wf*/ r matches Ok(m) ==> m.wf(),
        /*@endian*/ r matches Ok(m) ==> m.endian == self.architecture.spec_endian(),
        /*@image*/ r matches Ok(m) ==> m.bytes() == image(self.bytes@, goblin::elf::parsed(self.bytes@).program_headers@, self.base_address),
//@ before 0 `for ph in it0:`
    let ghost phs = elf.program_headers@;
    let ghost file = self.bytes@;
    let ghost base = self.base_address;
    proof {
        assert(phs.take(0) =~= Seq::<ProgramHeader>::empty());
    }
//@ loop 0
    invariant
        /*@headers*/ it0.seq() == phs && phs == goblin::elf::parsed(self.bytes@).program_headers@ && file == self.bytes@ && base == self.base_address,
        /*@segs_wf*/ segs_wf(phs, base),
        /*@mem_wf*/ memory.wf(),
        /*@mem_endian*/ memory.endian == self.architecture.spec_endian(),
        /*@prefix_in_file*/ segs_in_file(file, phs.take(it0.index@ as int)),
        /*@prefix_image*/ memory.bytes() == image(file, phs.take(it0.index@ as int), base),
//@ before 0 `if ph.p_type == goblin::elf::program_header::PT_LOAD`
    let ghost i = it0.index@ as int;
    let ghost mem0 = memory.bytes();
    proof {
        assert(ph == phs[i]);
        assert(phs.take(i + 1).drop_last() =~= phs.take(i));
        assert(phs.take(i + 1).last() == ph);
        assert(is_load(ph) ==> seg_wf(phs[i], base));
        // an out-of-file segment makes the whole header table "not in file"
        if is_load(ph) && !seg_in_file(file, ph) {
            assert(!seg_in_file(file, phs[i]));
        }
        // the prefix extended by an in-file (or non-load) header is still in file
        if !is_load(ph) || seg_in_file(file, ph) {
            assert forall|j: int| 0 <= j < phs.take(i + 1).len() && is_load(#[trigger] phs.take(i + 1)[j]) implies seg_in_file(file, phs.take(i + 1)[j]) by {
                if j < i { assert(phs.take(i)[j] == phs.take(i + 1)[j]); }
            }
        }
    }
//@ before 0 `let mut permissions`
    proof {
        // (extensional-equality hint phrased as a condition: if the code stops producing seg_data, the named
        // invariant `prefix_image` fails rather than this hint)
        if bytes@ =~= seg_data(file, ph) { lemma_same(bytes@, seg_data(file, ph)); }
        lemma_perm_bits(ph.p_flags & goblin::elf::program_header::PF_R != 0, ph.p_flags & goblin::elf::program_header::PF_W != 0, ph.p_flags & goblin::elf::program_header::PF_X != 0);
    }
//@ before 0 `Ok(memory)`
    proof {
        assert(phs.take(phs.len() as int) =~= phs);
    }
//@ end

//@ fn impl Loader for Elf :: fn function_entries nopub loops=3
//@ rewrite 1 `for sym in &elf.dynsyms` => `for sym in it0: &elf.dynsyms` ## R-ghost-iter-name: names the ghost iterator of the for loop so that invariants can mention it; no executable change
//@ rewrite 1 `for sym in &elf.syms` => `for sym in it1: &elf.syms` ## R-ghost-iter-name: as above
//@ rewrite 1 `function_entries .entry(elf.header.e_entry) .or_insert_with(` => `btree_entry_or_insert_with(&mut function_entries, elf.header.e_entry, ` ## R-std-standin: `MAP.entry(K).or_insert_with(F)` replaced by the stand-in of units/C19/std_local.rs (same map, key and closure; the stand-in's body calls the real `entry` / `or_insert_with`)
//@ rewrite 1 `for &user_function_entry in &self.user_function_entries {` => `for ufe__ in it2: &self.user_function_entries { let user_function_entry = *ufe__;` ## R-ref-pattern: a `&x` pattern binds x to a copy of the referenced u64 (Verus: "ref patterns" unsupported); also names the ghost iterator
//@ rewrite 1 `{ continue; }` => `{ } else {` ## R-continue: `if C { continue; } REST` at the end of a loop body is by definition `if C { } else { REST }` (Verus: "for-loops do not yet support continue"); part 1 of 2
//@ rewrite 1 `} Ok(` => `} } Ok(` ## R-continue: part 2 of 2, closes the else block at the end of the loop body
//@ rewrite 1 `function_entries.into_values().collect()` => `btree_u64_into_values(function_entries)` ## R-std-standin: `MAP.into_values().collect()` replaced by the stand-in of units/C19/std_local.rs (values in ascending key order; the stand-in's body calls the real functions)
//@ closure 0 || -> (r0: FunctionEntry)
    ensures r0.address == elf.header.e_entry + self.base_address && r0.name is None,
//@ spec
    ensures
        /*@ok*/ r is Ok,
        /*@entries*/ r matches Ok(v) ==> entries_match(v@, spec_entries(goblin::elf::parsed(self.bytes@), self.user_function_entries@, self.base_address)),
        /*@listing_exists*/ has_listing(entry_map(goblin::elf::parsed(self.bytes@), self.user_function_entries@, self.base_address).dom()),
//@ before 0 `for sym in it0:`
    let ghost p = goblin::elf::parsed(self.bytes@);
    let ghost users = self.user_function_entries@;
    let ghost base = self.base_address;
    let ghost e0 = Map::<u64, EntrySpec>::empty();
    proof {
        assert(p.dynsyms@.take(0) =~= Seq::<Sym>::empty());
    }
//@ loop 0
    invariant
        /*@dyn_ctx*/ elf == p && p == goblin::elf::parsed(self.bytes@) && users == self.user_function_entries@ && base == self.base_address && entries_wf(p, users, base),
        /*@dyn_prefix*/ map_matches(function_entries@, add_syms(e0, p.dynsyms@.take(it0.index@ as int), p.dynstrtab, base)),
//@ before 0 `if sym.is_function()`
    let ghost i = it0.index@ as int;
    let ghost c0 = function_entries@;
    proof {
        assert(*sym == p.dynsyms@[i]);
        lemma_add_syms_step(e0, p.dynsyms@, p.dynstrtab, base, i);
        assert(is_def_fn(p.dynsyms@[i]) ==> p.dynsyms@[i].st_value + base <= u64::MAX && p.dynstrtab.valid_at(p.dynsyms@[i].st_name));
    }
//@ before 0 `} } for sym in it1:`
    proof {
        // (conditional, so that a wrong entry makes the named invariant `prefix` fail rather than this hint)
        if entry_matches(function_entries@[sym.st_value], sym_entry(*sym, p.dynstrtab, base)) {
            lemma_insert_matches(c0, add_syms(e0, p.dynsyms@.take(i), p.dynstrtab, base), sym.st_value, function_entries@[sym.st_value], sym_entry(*sym, p.dynstrtab, base));
        }
    }
//@ before 0 `for sym in it1:`
    let ghost m1 = add_syms(e0, p.dynsyms@, p.dynstrtab, base);
    proof {
        assert(p.dynsyms@.take(p.dynsyms@.len() as int) =~= p.dynsyms@);
        assert(p.syms@.take(0) =~= Seq::<Sym>::empty());
    }
//@ loop 1
    invariant
        /*@sym_ctx*/ elf == p && p == goblin::elf::parsed(self.bytes@) && users == self.user_function_entries@ && base == self.base_address && entries_wf(p, users, base)
            && m1 == add_syms(e0, p.dynsyms@, p.dynstrtab, base),
        /*@sym_prefix*/ map_matches(function_entries@, add_syms(m1, p.syms@.take(it1.index@ as int), p.strtab, base)),
//@ before 1 `if sym.is_function()`
    let ghost i = it1.index@ as int;
    let ghost c0 = function_entries@;
    proof {
        assert(*sym == p.syms@[i]);
        lemma_add_syms_step(m1, p.syms@, p.strtab, base, i);
        assert(is_def_fn(p.syms@[i]) ==> p.syms@[i].st_value + base <= u64::MAX && p.strtab.valid_at(p.syms@[i].st_name));
    }
//@ before 0 `} } btree_entry_or_insert_with(`
    proof {
        if entry_matches(function_entries@[sym.st_value], sym_entry(*sym, p.strtab, base)) {
            lemma_insert_matches(c0, add_syms(m1, p.syms@.take(i), p.strtab, base), sym.st_value, function_entries@[sym.st_value], sym_entry(*sym, p.strtab, base));
        }
    }
//@ before 0 `btree_entry_or_insert_with(`
    let ghost m2 = add_syms(m1, p.syms@, p.strtab, base);
    let ghost c2 = function_entries@;
    proof {
        assert(p.syms@.take(p.syms@.len() as int) =~= p.syms@);
    }
//@ before 0 `for ufe__ in it2:`
    let ghost m3 = add_program_entry(m2, p.header.e_entry, base);
    proof {
        if !c2.contains_key(p.header.e_entry) {
            let es = EntrySpec { address: p.header.e_entry + base, name: EntryName::Anon };
            if entry_matches(function_entries@[p.header.e_entry], es) {
                lemma_insert_matches(c2, m2, p.header.e_entry, function_entries@[p.header.e_entry], es);
            }
        }
        assert(users.take(0) =~= Seq::<u64>::empty());
    }
//@ loop 2
    invariant
        /*@user_ctx*/ p == goblin::elf::parsed(self.bytes@) && users == self.user_function_entries@ && base == self.base_address && entries_wf(p, users, base)
            && m3 == add_program_entry(add_syms(add_syms(e0, p.dynsyms@, p.dynstrtab, base), p.syms@, p.strtab, base), p.header.e_entry, base),
        /*@user_prefix*/ map_matches(function_entries@, add_users(m3, users.take(it2.index@ as int), base)),
//@ before 0 `if function_entries.contains_key(&user_function_entry)`
    let ghost i = it2.index@ as int;
    let ghost c0 = function_entries@;
    proof {
        assert(user_function_entry == users[i]);
        lemma_add_users_step(m3, users, base, i);
    }
//@ before 0 `} } Ok(`
    proof {
        let es = EntrySpec { address: user_function_entry + base, name: EntryName::User(user_function_entry) };
        if entry_matches(function_entries@[user_function_entry], es) {
            lemma_insert_matches(c0, add_users(m3, users.take(i), base), user_function_entry, function_entries@[user_function_entry], es);
        }
    }
//@ before 0 `Ok(btree_u64_into_values(function_entries))`
    let ghost cf = function_entries@;
    proof {
        assert(users.take(users.len() as int) =~= users);
        let mf = entry_map(p, users, base);
        assert(map_matches(cf, mf));
        // whatever ascending listing of the map the stand-in returns, it matches the specification
        assert forall|ks: Seq<u64>, v: Seq<FunctionEntry>| #[trigger] u64_key_order_listing(cf, ks, v)
            implies entries_match(v, sorted_values(mf)) && has_listing(mf.dom()) by {
            lemma_key_order_listing_matches(cf, mf, ks, v);
        }
    }
//@ end

//@ fn impl Loader for Elf :: fn program_entry nopub
//@ spec
    ensures /*@rebased*/ r == goblin::elf::parsed(self.bytes@).header.e_entry + self.base_address,
//@ end

//@ fn impl Loader for Elf :: fn architecture nopub
//@ spec
    ensures /*@same*/ r == &*self.architecture,
//@ end

//@ fn impl Loader for Elf :: fn symbols nopub
//@ spec
    ensures
        /*@symbols*/ views(r@) == spec_symbols(goblin::elf::parsed(self.bytes@), self.base_address),
        /*@listing*/ asc_listing(views(r@), raw_symbols(goblin::elf::parsed(self.bytes@), self.base_address).to_set()),
//@ end

} // impl Loader for Elf
