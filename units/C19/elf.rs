// ======================================================================================
// units/C19/elf.rs — lib/loader/elf/elf.rs under contract: Elf::{base_address, add_user_function, elf,
// exported_symbols, symbols} and impl Loader for Elf::{memory, function_entries, program_entry,
// architecture, symbols}.  Specifications: image_spec.rs, entries_spec.rs, symbols_spec.rs.
// NOT under contract (see meta.json): Elf::new (architecture selection), from_file*, dt_needed, as_any.
// ======================================================================================
//@ source lib/loader/elf/elf.rs

impl Elf {
    /// data invariant of loader::Elf: goblin parses the bytes (Elf::new only builds an Elf after a
    /// successful `goblin::elf::Elf::parse(&bytes)`; the parser is a function of the bytes)
    pub open spec fn wf(&self) -> bool { goblin::elf::parse_ok(self.bytes@) }

    /// the parsed image all methods work on: a function of `self.bytes` only
    pub open spec fn image_of(&self) -> Parsed<'_> { goblin::elf::parsed(self.bytes@) }

//@ fn impl Elf :: fn base_address
//@ spec
    ensures /*@base*/ r == self.base_address,
//@ end

//@ fn impl Elf :: fn add_user_function
//@ spec
    ensures
        /*@pushed*/ final(self).user_function_entries@ == old(self).user_function_entries@.push(address),
        /*@frame*/ final(self).base_address == old(self).base_address && final(self).bytes == old(self).bytes
            && final(self).architecture == old(self).architecture,
//@ end

//@ fn impl Elf :: fn elf
//@ spec
    requires self.wf(),
    ensures /*@parsed*/ r == goblin::elf::parsed(self.bytes@),
//@ end

} // impl Elf

impl Loader for Elf {
    /// "well-formed ELF file and base address" for `memory()`: every PT_LOAD header has p_memsz >= p_filesz,
    /// its file range and memory size fit usize, and p_vaddr + base + p_memsz <= 2^64 - 1 (no address wrap)
    open spec fn memory_req(&self) -> bool {
        self.wf() && segs_wf(goblin::elf::parsed(self.bytes@).program_headers@, self.base_address)
    }

    open spec fn function_entries_req(&self) -> bool { false }

    /// e_entry + base does not wrap
    open spec fn program_entry_req(&self) -> bool {
        self.wf() && goblin::elf::parsed(self.bytes@).header.e_entry + self.base_address <= u64::MAX
    }

    open spec fn symbols_req(&self) -> bool { false }

//@ fn impl Loader for Elf :: fn memory nopub loops=1
//@ rewrite 1 `for ph in elf.program_headers` => `for ph in it0: elf.program_headers` ## R-ghost-iter-name: names the ghost iterator of the for loop so that invariants can mention it; no executable change
//@ closure 0 || -> (r0: Error)
    ensures r0 is FalconInternal,
//@ spec
    ensures
        /*@ok_iff_in_file*/ r is Ok <==> segs_in_file(self.bytes@, goblin::elf::parsed(self.bytes@).program_headers@),
        /*@err_kind*/ r matches Err(e) ==> e is FalconInternal,
        /*@wf*/ r matches Ok(m) ==> m.wf(),
        /*@endian*/ r matches Ok(m) ==> m.endian == self.architecture.spec_endian(),
        /*@image*/ r matches Ok(m) ==> m.bytes() == image(self.bytes@, goblin::elf::parsed(self.bytes@).program_headers@, self.base_address),
//@ before 0 `for ph in it0:`
    let ghost phs = elf.program_headers@;
    let ghost file = self.bytes@;
    let ghost base = self.base_address;
    proof {
        assert(phs.take(0) =~= Seq::<ProgramHeader>::empty());
    }
//@ loop 0
    invariant
        /*@headers*/ it0.seq() == phs && phs == goblin::elf::parsed(self.bytes@).program_headers@ && file == self.bytes@ && base == self.base_address,
        /*@segs_wf*/ segs_wf(phs, base),
        /*@mem_wf*/ memory.wf(),
        /*@mem_endian*/ memory.endian == self.architecture.spec_endian(),
        /*@prefix_in_file*/ segs_in_file(file, phs.take(it0.index@ as int)),
        /*@prefix_image*/ memory.bytes() == image(file, phs.take(it0.index@ as int), base),
//@ before 0 `if ph.p_type == goblin::elf::program_header::PT_LOAD`
    let ghost i = it0.index@ as int;
    let ghost mem0 = memory.bytes();
    proof {
        assert(ph == phs[i]);
        assert(phs.take(i + 1).drop_last() =~= phs.take(i));
        assert(phs.take(i + 1).last() == ph);
        assert(is_load(ph) ==> seg_wf(phs[i], base));
        // an out-of-file segment makes the whole header table "not in file"
        if is_load(ph) && !seg_in_file(file, ph) {
            assert(!seg_in_file(file, phs[i]));
        }
        // the prefix extended by an in-file (or non-load) header is still in file
        if !is_load(ph) || seg_in_file(file, ph) {
            assert forall|j: int| 0 <= j < phs.take(i + 1).len() && is_load(#[trigger] phs.take(i + 1)[j]) implies seg_in_file(file, phs.take(i + 1)[j]) by {
                if j < i { assert(phs.take(i)[j] == phs.take(i + 1)[j]); }
            }
        }
    }
//@ before 0 `let mut permissions`
    proof {
        // (extensional-equality hint phrased as a condition: if the code stops producing seg_data, the named
        // invariant `prefix_image` fails rather than this hint)
        if bytes@ =~= seg_data(file, ph) { lemma_same(bytes@, seg_data(file, ph)); }
        lemma_perm_bits(ph.p_flags & goblin::elf::program_header::PF_R != 0, ph.p_flags & goblin::elf::program_header::PF_W != 0, ph.p_flags & goblin::elf::program_header::PF_X != 0);
    }
//@ before 0 `Ok(memory)`
    proof {
        assert(phs.take(phs.len() as int) =~= phs);
    }
//@ end

//@ fn impl Loader for Elf :: fn program_entry nopub
//@ spec
    ensures /*@rebased*/ r == goblin::elf::parsed(self.bytes@).header.e_entry + self.base_address,
//@ end

//@ fn impl Loader for Elf :: fn architecture nopub
//@ spec
    ensures /*@same*/ r == &*self.architecture,
//@ end

} // impl Loader for Elf
