// ======================================================================================
// units/C19/std_local.rs — std operations used by lib/loader/elf/elf.rs that vstd (0.2026.09.13) has
// no specification for.  Every item is an ASSUMED contract (listed in the evidence); each one is the
// documented behaviour of the Rust standard library.
// ======================================================================================
pub mod c19_std {
    use vstd::prelude::*;
    use std::alloc::Allocator;
    use std::collections::BTreeMap;

    // `<Box<T> as AsRef<T>>::as_ref`: std: `impl<T: ?Sized, A: Allocator> AsRef<T> for Box<T, A> { fn as_ref(&self) -> &T { self } }`
    // (deref of the box): the result is a reference to the boxed value.
    pub assume_specification<'a, T: ?Sized, A: Allocator>
        [ <std::boxed::Box<T, A> as std::convert::AsRef<T>>::as_ref ]
        (b: &'a std::boxed::Box<T, A>) -> (r: &'a T)
        ensures r == &**b;

    // `<[T]>::to_vec`: "Copies self into a new Vec" — element i is `self[i].clone()`; stated for element
    // types whose clone is a copy (`cloned(a, b) ==> a == b`, true of u8).
    pub assume_specification<T: Clone> [ <[T]>::to_vec ] (s: &[T]) -> (r: Vec<T>)
        ensures (forall|a: T, b: T| #[trigger] cloned(a, b) ==> a == b) ==> r@ == s@;
}
