// ======================================================================================
// units/C19/std_local.rs — std operations used by lib/loader/elf/elf.rs that vstd (0.2026.09.13) has
// no specification for.  Every item is an ASSUMED contract (listed in the evidence); each one is the
// documented behaviour of the Rust standard library.
// ======================================================================================
pub mod c19_std {
    use vstd::prelude::*;
    use std::alloc::Allocator;
    use std::collections::BTreeMap;

    // `<Box<T> as AsRef<T>>::as_ref`: std: `impl<T: ?Sized, A: Allocator> AsRef<T> for Box<T, A> { fn as_ref(&self) -> &T { self } }`
    // (deref of the box): the result is a reference to the boxed value.
    pub assume_specification<'a, T: ?Sized, A: Allocator>
        [ <std::boxed::Box<T, A> as std::convert::AsRef<T>>::as_ref ]
        (b: &'a std::boxed::Box<T, A>) -> (r: &'a T)
        ensures r == &**b;

    // `<[T]>::to_vec`: "Copies self into a new Vec" — element i is `self[i].clone()`; stated for element
    // types whose clone is a copy (`cloned(a, b) ==> a == b`, true of u8).
    pub assume_specification<T: Clone> [ <[T]>::to_vec ] (s: &[T]) -> (r: Vec<T>)
        ensures (forall|a: T, b: T| #[trigger] cloned(a, b) ==> a == b) ==> r@ == s@;

    // `map.entry(k).or_insert_with(f)` on a BTreeMap.  std: "Ensures a value is in the entry by inserting the
    // result of the default function if empty, and returns a mutable reference to the value in the entry."
    // Contract: a present key keeps its value and `f` is not called; an absent key gets `f()`; the map
    // afterwards is the old map with `k` bound to whatever the returned reference holds when the borrow ends;
    // no other key changes.  Used through ONE logged rewrite `MAP.entry(K).or_insert_with(` =>
    // `btree_entry_or_insert_with(&mut MAP, K, ` (the body calls the real `entry` / `or_insert_with`).
    #[verifier::external_body]
    pub fn btree_entry_or_insert_with<'a, K: Ord, V, F: FnOnce() -> V>(m: &'a mut BTreeMap<K, V>, k: K, f: F) -> (r: &'a mut V)
        requires
            !old(m)@.contains_key(k) ==> f.requires(()),
        ensures
            vstd::std_specs::btree::key_obeys_cmp_spec::<K>() ==> {
                &&& old(m)@.contains_key(k) ==> *r == old(m)@[k]
                &&& !old(m)@.contains_key(k) ==> f.ensures((), *r)
                &&& final(m)@ == old(m)@.insert(k, *final(r))
            },
    {
        m.entry(k).or_insert_with(f)
    }

    /// `ks` lists the keys of `m` in strictly ascending order and `v` the corresponding values
    pub open spec fn u64_key_order_listing<V>(m: Map<u64, V>, ks: Seq<u64>, v: Seq<V>) -> bool {
        &&& forall|i: int, j: int| 0 <= i < j < ks.len() ==> #[trigger] ks[i] < #[trigger] ks[j]
        &&& forall|k: u64| #[trigger] ks.contains(k) <==> m.contains_key(k)
        &&& v.len() == ks.len()
        &&& forall|i: int| 0 <= i < ks.len() ==> #[trigger] v[i] == m[ks[i]]
    }

    // `map.into_values().collect::<Vec<V>>()` on a BTreeMap<u64, V>.  std (BTreeMap::into_values): "Creates a
    // consuming iterator visiting all the values, in order by key"; collect() pushes them in iteration
    // order.  Contract: the result lists the values of the map in strictly ascending key order (u64's `Ord`
    // is `<` on the numbers).  Used through ONE logged rewrite `MAP.into_values().collect()` =>
    // `btree_u64_into_values(MAP)` (the body calls the real functions).
    #[verifier::external_body]
    pub fn btree_u64_into_values<V>(m: BTreeMap<u64, V>) -> (r: Vec<V>)
        ensures exists|ks: Seq<u64>| u64_key_order_listing(m@, ks, r@),
    {
        m.into_values().collect()
    }

    // ---- ordering of strings ---------------------------------------------------------------------------
    // `str_lt(a, b)`: String a sorts strictly before String b under `<String as Ord>::cmp` (std: "Strings are
    // ordered lexicographically by their byte values").  ASSUMED: it is a strict total order on character
    // sequences (it depends on the characters only; two Strings with the same characters compare Equal).
    pub uninterp spec fn str_lt(a: Seq<char>, b: Seq<char>) -> bool;

    pub axiom fn axiom_str_lt_irrefl(a: Seq<char>)
        ensures !str_lt(a, a);

    pub axiom fn axiom_str_lt_trans(a: Seq<char>, b: Seq<char>, c: Seq<char>)
        requires str_lt(a, b), str_lt(b, c),
        ensures str_lt(a, c);

    pub axiom fn axiom_str_lt_total(a: Seq<char>, b: Seq<char>)
        ensures str_lt(a, b) || a == b || str_lt(b, a);

    // ---- Vec::sort / Vec::dedup --------------------------------------------------------------------------
    /// no element is Greater than a later one (under the element type's `Ord::cmp`, as modelled by vstd's cmp_spec)
    pub open spec fn sorted_by_cmp<T: Ord>(s: Seq<T>) -> bool {
        forall|i: int, j: int| 0 <= i < j < s.len() ==>
            vstd::std_specs::cmp::OrdSpec::cmp_spec(&#[trigger] s[i], &#[trigger] s[j]) != core::cmp::Ordering::Greater
    }

    // `v.sort()` (`<[T]>::sort` through Vec's DerefMut).  std: "Sorts the slice ... This sort is stable"; the
    // result is a permutation of the input that is ordered by `Ord::cmp`.  Contract (weaker than "permutation"):
    // same length, same elements, ordered.  Used through ONE logged rewrite `V.sort();` => `vec_sort(&mut V);`
    // (Verus loses the connection between a Vec and the `&mut [T]` it derefs to; the body calls the real `sort`).
    #[verifier::external_body]
    pub fn vec_sort<T: Ord>(v: &mut Vec<T>)
        ensures
            final(v)@.len() == old(v)@.len(),
            forall|x: T| #[trigger] final(v)@.contains(x) <==> old(v)@.contains(x),
            <T as vstd::std_specs::cmp::OrdSpec>::obeys_cmp_spec() ==> sorted_by_cmp(final(v)@),
    {
        v.sort()
    }

    /// `Vec::dedup` as a function on sequences: keep an element iff it is the first one or differs (`==`,
    /// modelled by eq_spec) from its predecessor
    pub open spec fn dedup_seq<T: PartialEq>(s: Seq<T>) -> Seq<T>
        decreases s.len(),
    {
        if s.len() <= 1 {
            s
        } else {
            let d = dedup_seq(s.drop_last());
            if vstd::std_specs::cmp::PartialEqSpec::eq_spec(&s[s.len() - 2], &s.last()) { d } else { d.push(s.last()) }
        }
    }

    /// `==` on T (as modelled by eq_spec) is symmetric and transitive
    pub open spec fn eq_is_equivalence<T: PartialEq>() -> bool {
        &&& forall|a: T, b: T| #[trigger] vstd::std_specs::cmp::PartialEqSpec::eq_spec(&a, &b) ==> vstd::std_specs::cmp::PartialEqSpec::eq_spec(&b, &a)
        &&& forall|a: T, b: T, c: T| #[trigger] vstd::std_specs::cmp::PartialEqSpec::eq_spec(&a, &b) && #[trigger] vstd::std_specs::cmp::PartialEqSpec::eq_spec(&b, &c)
                ==> vstd::std_specs::cmp::PartialEqSpec::eq_spec(&a, &c)
    }

    // `Vec::dedup`: "Removes consecutive repeated elements in the vector according to the PartialEq trait
    // implementation.  If the vector is sorted, this removes all duplicates."  The implementation compares each
    // element with the last RETAINED one; for an equivalence relation that is the same as comparing with the
    // predecessor (dedup_seq), hence the guard.
    pub assume_specification<T: PartialEq, A: Allocator> [ Vec::<T, A>::dedup ] (v: &mut Vec<T, A>)
        ensures <T as vstd::std_specs::cmp::PartialEqSpec>::obeys_eq_spec() && eq_is_equivalence::<T>() ==> final(v)@ == dedup_seq(old(v)@);
}
