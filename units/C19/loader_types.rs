// ======================================================================================
// units/C19/loader_types.rs — lib/loader/mod.rs (FunctionEntry, trait Loader), lib/loader/symbol.rs
// (Symbol) and the struct loader::Elf of lib/loader/elf/elf.rs.
// ======================================================================================
//@ source lib/loader/mod.rs
//@ item struct FunctionEntry

impl FunctionEntry {
//@ fn impl FunctionEntry :: fn new
//@ spec
    ensures /*@fields*/ r.address == address && r.name == name,
//@ end

//@ fn impl FunctionEntry :: fn address
//@ spec
    ensures /*@address*/ r == self.address,
//@ end
} // impl FunctionEntry

// lib/loader/mod.rs declares `pub trait Loader: fmt::Debug + Send + Sync` with the required methods
// memory / function_entries / program_entry / architecture / as_any / symbols and provided methods that
// lift programs.  The five required methods that `impl Loader for Elf` defines and that this unit puts
// under contract are restated with the crate's executable signatures.  Verus does not allow an impl to add
// a precondition the trait does not declare, so every method gets a specification function naming its
// precondition (`*_req`); `impl Loader for Elf` defines them (units/C19/elf.rs).  `as_any` and the
// provided methods (program, program_recursive, function, symbols_map, ...) are not part of C19's scope.
pub trait Loader {
    spec fn memory_req(&self) -> bool;
    spec fn function_entries_req(&self) -> bool;
    spec fn program_entry_req(&self) -> bool;
    spec fn symbols_req(&self) -> bool;
    spec fn architecture_req(&self) -> bool;

    fn memory(&self) -> (r: Result<memory::backing::Memory, Error>)
        requires self.memory_req();

    fn function_entries(&self) -> (r: Result<Vec<FunctionEntry>, Error>)
        requires self.function_entries_req();

    fn program_entry(&self) -> (r: u64)
        requires self.program_entry_req();

    fn architecture(&self) -> (r: &dyn Architecture)
        requires self.architecture_req();

    fn symbols(&self) -> (r: Vec<Symbol>)
        requires self.symbols_req();
}

//@ source lib/loader/symbol.rs
//@ item struct Symbol

// derive(PartialEq, Eq, PartialOrd, Ord) on `struct Symbol { address: u64, name: String }` re-supplied:
// compiler-generated structural equality and lexicographic comparison in field order (address, then name;
// String compares by its characters, see `str_lt` in units/C19/std_local.rs).  ASSUMED, listed in the evidence.
impl vstd::std_specs::cmp::PartialEqSpecImpl for Symbol {
    open spec fn obeys_eq_spec() -> bool { true }
    open spec fn eq_spec(&self, other: &Symbol) -> bool { sview(*self) == sview(*other) }
}
impl PartialEq for Symbol {
    #[verifier::external_body]
    fn eq(&self, other: &Symbol) -> (r: bool) ensures r == (sview(*self) == sview(*other)) { unimplemented!() }
}
impl Eq for Symbol {}
impl vstd::std_specs::cmp::PartialOrdSpecImpl for Symbol {
    open spec fn obeys_partial_cmp_spec() -> bool { true }
    open spec fn partial_cmp_spec(&self, other: &Symbol) -> Option<core::cmp::Ordering> { Some(sym_cmp(*self, *other)) }
}
impl PartialOrd for Symbol {
    #[verifier::external_body]
    fn partial_cmp(&self, other: &Symbol) -> (r: Option<core::cmp::Ordering>) ensures r == Some(sym_cmp(*self, *other)) { unimplemented!() }
}
impl vstd::std_specs::cmp::OrdSpecImpl for Symbol {
    open spec fn obeys_cmp_spec() -> bool { true }
    open spec fn cmp_spec(&self, other: &Symbol) -> core::cmp::Ordering { sym_cmp(*self, *other) }
}
impl Ord for Symbol {
    #[verifier::external_body]
    fn cmp(&self, other: &Symbol) -> (r: core::cmp::Ordering) ensures r == sym_cmp(*self, *other) { unimplemented!() }
}

impl Symbol {
//@ fn impl Symbol :: fn new
//@ rewrite 1 `name.into()` => `into_string(name)` ## R-into: the same conversion through the stand-in of prelude/strmap.rs that carries the assumed contract of Into<String> (keeps the characters)
//@ spec
    ensures /*@fields*/ r.address == address && r.name@ == into_string_chars(name),
//@ end

//@ fn impl Symbol :: fn address
//@ spec
    ensures /*@address*/ r == self.address,
//@ end
} // impl Symbol

//@ source lib/loader/elf/elf.rs
//@ item struct Elf
