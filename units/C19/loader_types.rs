// ======================================================================================
// units/C19/loader_types.rs — lib/loader/mod.rs (FunctionEntry, trait Loader), lib/loader/symbol.rs
// (Symbol) and the struct loader::Elf of lib/loader/elf/elf.rs.
// ======================================================================================
//@ source lib/loader/mod.rs
//@ item struct FunctionEntry

impl FunctionEntry {
//@ fn impl FunctionEntry :: fn new
//@ spec
    ensures /*@fields*/ r.address == address && r.name == name,
//@ end

//@ fn impl FunctionEntry :: fn address
//@ spec
    ensures /*@address*/ r == self.address,
//@ end
} // impl FunctionEntry

// lib/loader/mod.rs declares `pub trait Loader: fmt::Debug + Send + Sync` with the required methods
// memory / function_entries / program_entry / architecture / as_any / symbols and provided methods that
// lift programs.  The five required methods that `impl Loader for Elf` defines and that this unit puts
// under contract are restated with the crate's executable signatures.  Verus does not allow an impl to add
// a precondition the trait does not declare, so every method gets a specification function naming its
// precondition (`*_req`); `impl Loader for Elf` defines them (units/C19/elf.rs).  `as_any` and the
// provided methods (program, program_recursive, function, symbols_map, ...) are not part of C19's scope.
pub trait Loader {
    spec fn memory_req(&self) -> bool;
    spec fn function_entries_req(&self) -> bool;
    spec fn program_entry_req(&self) -> bool;
    spec fn symbols_req(&self) -> bool;

    fn memory(&self) -> (r: Result<memory::backing::Memory, Error>)
        requires self.memory_req();

    fn function_entries(&self) -> (r: Result<Vec<FunctionEntry>, Error>)
        requires self.function_entries_req();

    fn program_entry(&self) -> (r: u64)
        requires self.program_entry_req();

    fn architecture(&self) -> (r: &dyn Architecture);

    //TMP fn symbols(&self) -> (r: Vec<Symbol>)
    //TMP    requires self.symbols_req();
}

//@ source lib/loader/symbol.rs
//@ item struct Symbol

//@ source lib/loader/elf/elf.rs
//@ item struct Elf
