// ======================================================================================
// units/C19/symbols_spec.rs — the symbols of an ELF image as a mathematical object, the order the
// result is sorted by, and the lemmas: sort + dedup = THE strictly ascending listing of the set of raw
// symbols; base B = base 0 shifted by B; every exported symbol is a symbol.
// ======================================================================================

pub type Reloc = goblin::elf::reloc::Reloc;

/// a symbol: reported address (mathematical integer) and name (characters)
pub struct SymSpec {
    pub address: int,
    pub name: Seq<char>,
}

pub open spec fn sview(s: Symbol) -> SymSpec { SymSpec { address: s.address as int, name: s.name@ } }

pub open spec fn views(s: Seq<Symbol>) -> Seq<SymSpec> { s.map_values(|x: Symbol| sview(x)) }

/// derive(PartialOrd, Ord) on `struct Symbol { address: u64, name: String }`: lexicographic, address first
impl StrictOrd for SymSpec {
    open spec fn lt(self, other: SymSpec) -> bool {
        self.address < other.address || (self.address == other.address && str_lt(self.name, other.name))
    }
    proof fn lt_irrefl(a: SymSpec) { axiom_str_lt_irrefl(a.name); }
    proof fn lt_trans(a: SymSpec, b: SymSpec, c: SymSpec) {
        if a.address == b.address && b.address == c.address { axiom_str_lt_trans(a.name, b.name, c.name); }
    }
    proof fn lt_total(a: SymSpec, b: SymSpec) { axiom_str_lt_total(a.name, b.name); }
}

pub open spec fn sym_cmp(a: Symbol, b: Symbol) -> core::cmp::Ordering {
    if sview(a).lt(sview(b)) { core::cmp::Ordering::Less }
    else if sview(a) == sview(b) { core::cmp::Ordering::Equal }
    else { core::cmp::Ordering::Greater }
}

// ---- the raw (unsorted) symbol list ------------------------------------------------------------------

/// symbols of one symbol table: every entry with st_value != 0, address st_value + base
pub open spec fn value_syms(syms: Seq<Sym>, tab: Strtab, base: u64) -> Seq<SymSpec>
    decreases syms.len(),
{
    if syms.len() == 0 {
        Seq::<SymSpec>::empty()
    } else {
        let pre = value_syms(syms.drop_last(), tab, base);
        let s = syms.last();
        if s.st_value != 0 { pre.push(SymSpec { address: s.st_value + base, name: tab.name_at(s.st_name) }) } else { pre }
    }
}

/// PLT relocations: for every relocation whose r_sym indexes a dynamic symbol, that symbol's name at
/// r_offset + base
pub open spec fn plt_syms(rels: Seq<Reloc>, dynsyms: Seq<Sym>, tab: Strtab, base: u64) -> Seq<SymSpec>
    decreases rels.len(),
{
    if rels.len() == 0 {
        Seq::<SymSpec>::empty()
    } else {
        let pre = plt_syms(rels.drop_last(), dynsyms, tab, base);
        let r = rels.last();
        if r.r_sym < dynsyms.len() {
            pre.push(SymSpec { address: r.r_offset + base, name: tab.name_at(dynsyms[r.r_sym as int].st_name) })
        } else {
            pre
        }
    }
}

pub open spec fn raw_symbols(p: Parsed, base: u64) -> Seq<SymSpec> {
    value_syms(p.dynsyms@, p.dynstrtab, base) + value_syms(p.syms@, p.strtab, base)
        + plt_syms(p.pltrelocs@, p.dynsyms@, p.dynstrtab, base)
}

/// THE SYMBOLS of image `p` loaded at `base`: the strictly ascending (address, then name) listing of the set
/// of raw symbols, i.e. sorted and without duplicates
pub open spec fn spec_symbols(p: Parsed, base: u64) -> Seq<SymSpec> {
    asc_seq(raw_symbols(p, base).to_set())
}

/// exported symbols: the dynamic symbols with st_value != 0, st_shndx != 0 and GLOBAL or WEAK binding, in
/// table order
pub open spec fn is_exported(s: Sym) -> bool {
    s.st_value != 0 && s.st_shndx != 0
        && (s.spec_st_bind() == goblin::elf::sym::STB_GLOBAL || s.spec_st_bind() == goblin::elf::sym::STB_WEAK)
}

pub open spec fn exported_syms(syms: Seq<Sym>, tab: Strtab, base: u64) -> Seq<SymSpec>
    decreases syms.len(),
{
    if syms.len() == 0 {
        Seq::<SymSpec>::empty()
    } else {
        let pre = exported_syms(syms.drop_last(), tab, base);
        let s = syms.last();
        if is_exported(s) { pre.push(SymSpec { address: s.st_value + base, name: tab.name_at(s.st_name) }) } else { pre }
    }
}

pub open spec fn shift_syms(s: Seq<SymSpec>, b: u64) -> Seq<SymSpec> {
    s.map_values(|e: SymSpec| SymSpec { address: e.address + b, name: e.name })
}

// ---- preconditions ("well-formed") ---------------------------------------------------------------------

pub open spec fn value_syms_wf(syms: Seq<Sym>, tab: Strtab, base: u64) -> bool {
    forall|i: int| 0 <= i < syms.len() && (#[trigger] syms[i]).st_value != 0 ==>
        syms[i].st_value + base <= u64::MAX && tab.valid_at(syms[i].st_name)
}

pub open spec fn plt_syms_wf(rels: Seq<Reloc>, dynsyms: Seq<Sym>, tab: Strtab, base: u64) -> bool {
    forall|i: int| 0 <= i < rels.len() && (#[trigger] rels[i]).r_sym < dynsyms.len() ==>
        rels[i].r_offset + base <= u64::MAX && tab.valid_at(dynsyms[rels[i].r_sym as int].st_name)
}

pub open spec fn symbols_wf(p: Parsed, base: u64) -> bool {
    &&& value_syms_wf(p.dynsyms@, p.dynstrtab, base)
    &&& value_syms_wf(p.syms@, p.strtab, base)
    &&& plt_syms_wf(p.pltrelocs@, p.dynsyms@, p.dynstrtab, base)
}

pub open spec fn exported_wf(syms: Seq<Sym>, tab: Strtab, base: u64) -> bool {
    forall|i: int| 0 <= i < syms.len() && is_exported(#[trigger] syms[i]) ==>
        syms[i].st_value + base <= u64::MAX && tab.valid_at(syms[i].st_name)
}

// ---- unfolding by one element ----------------------------------------------------------------------------

pub proof fn lemma_views_push(s: Seq<Symbol>, x: Symbol)
    ensures views(s.push(x)) == views(s).push(sview(x)),
{
    assert(views(s.push(x)) =~= views(s).push(sview(x)));
}

pub proof fn lemma_value_syms_step(syms: Seq<Sym>, tab: Strtab, base: u64, i: int)
    requires 0 <= i < syms.len(),
    ensures value_syms(syms.take(i + 1), tab, base) == (if syms[i].st_value != 0 {
            value_syms(syms.take(i), tab, base).push(SymSpec { address: syms[i].st_value + base, name: tab.name_at(syms[i].st_name) })
        } else { value_syms(syms.take(i), tab, base) }),
{
    assert(syms.take(i + 1).drop_last() =~= syms.take(i));
    assert(syms.take(i + 1).last() == syms[i]);
}

pub proof fn lemma_exported_syms_step(syms: Seq<Sym>, tab: Strtab, base: u64, i: int)
    requires 0 <= i < syms.len(),
    ensures exported_syms(syms.take(i + 1), tab, base) == (if is_exported(syms[i]) {
            exported_syms(syms.take(i), tab, base).push(SymSpec { address: syms[i].st_value + base, name: tab.name_at(syms[i].st_name) })
        } else { exported_syms(syms.take(i), tab, base) }),
{
    assert(syms.take(i + 1).drop_last() =~= syms.take(i));
    assert(syms.take(i + 1).last() == syms[i]);
}

pub proof fn lemma_plt_syms_step(rels: Seq<Reloc>, dynsyms: Seq<Sym>, tab: Strtab, base: u64, i: int)
    requires 0 <= i < rels.len(),
    ensures plt_syms(rels.take(i + 1), dynsyms, tab, base) == (if rels[i].r_sym < dynsyms.len() {
            plt_syms(rels.take(i), dynsyms, tab, base).push(SymSpec { address: rels[i].r_offset + base, name: tab.name_at(dynsyms[rels[i].r_sym as int].st_name) })
        } else { plt_syms(rels.take(i), dynsyms, tab, base) }),
{
    assert(rels.take(i + 1).drop_last() =~= rels.take(i));
    assert(rels.take(i + 1).last() == rels[i]);
}

// ---- sort + dedup = the ascending listing ------------------------------------------------------------------

/// non-strictly ascending
pub open spec fn asc_le<T: StrictOrd>(s: Seq<T>) -> bool {
    forall|i: int, j: int| 0 <= i < j < s.len() ==> (#[trigger] s[i]).lt(#[trigger] s[j]) || s[i] == s[j]
}

/// dedup on values: keep an element iff it is the first one or differs from its predecessor
pub open spec fn dedup_v<T>(s: Seq<T>) -> Seq<T>
    decreases s.len(),
{
    if s.len() <= 1 {
        s
    } else {
        let d = dedup_v(s.drop_last());
        if s[s.len() - 2] == s.last() { d } else { d.push(s.last()) }
    }
}

/// de-duplicating a (non-strictly) ascending sequence gives a strictly ascending one with the same elements
pub proof fn lemma_dedup_asc<T: StrictOrd>(s: Seq<T>)
    requires asc_le(s),
    ensures
        asc(dedup_v(s)),
        same_elems(dedup_v(s), s),
        s.len() > 0 ==> dedup_v(s).len() > 0 && dedup_v(s).last() == s.last(),
    decreases s.len(),
{
    if s.len() <= 1 {
    } else {
        let n = s.len() as int;
        let pre = s.drop_last();
        assert(asc_le(pre)) by {
            assert forall|i: int, j: int| 0 <= i < j < pre.len() implies (#[trigger] pre[i]).lt(#[trigger] pre[j]) || pre[i] == pre[j] by {
                assert(s[i].lt(s[j]) || s[i] == s[j]);
            }
        }
        lemma_dedup_asc(pre);
        let d = dedup_v(pre);
        let r = dedup_v(s);
        assert(pre.last() == s[n - 2]);
        assert(s[n - 2].lt(s[n - 1]) || s[n - 2] == s[n - 1]);
        if s[n - 2] == s.last() {
            assert(r == d);
            assert forall|x: T| #[trigger] r.contains(x) <==> s.contains(x) by {
                if r.contains(x) {
                    assert(pre.contains(x));
                    let i = choose|i: int| 0 <= i < pre.len() && pre[i] == x;
                    assert(s[i] == x);
                }
                if s.contains(x) {
                    let i = choose|i: int| 0 <= i < s.len() && s[i] == x;
                    if i == n - 1 { assert(pre[n - 2] == x); } else { assert(pre[i] == x); }
                    assert(pre.contains(x));
                }
            }
        } else {
            assert(r == d.push(s.last()));
            assert(d.last().lt(s.last()));
            assert(asc(r)) by {
                assert forall|i: int, j: int| 0 <= i < j < r.len() implies (#[trigger] r[i]).lt(#[trigger] r[j]) by {
                    if j < d.len() {
                        assert(d[i].lt(d[j]));
                    } else {
                        if i < d.len() - 1 {
                            assert(d[i].lt(d[d.len() - 1]));
                            T::lt_trans(d[i], d.last(), s.last());
                        }
                    }
                }
            }
            assert forall|x: T| #[trigger] r.contains(x) <==> s.contains(x) by {
                if r.contains(x) {
                    let i = choose|i: int| 0 <= i < r.len() && r[i] == x;
                    if i < d.len() {
                        assert(d[i] == x);
                        assert(d.contains(x));
                        assert(pre.contains(x));
                        let k = choose|k: int| 0 <= k < pre.len() && pre[k] == x;
                        assert(s[k] == x);
                    } else {
                        assert(s[n - 1] == x);
                    }
                }
                if s.contains(x) {
                    let i = choose|i: int| 0 <= i < s.len() && s[i] == x;
                    if i == n - 1 {
                        assert(r[r.len() - 1] == x);
                    } else {
                        assert(pre[i] == x);
                        assert(pre.contains(x));
                        assert(d.contains(x));
                        let k = choose|k: int| 0 <= k < d.len() && d[k] == x;
                        assert(r[k] == x);
                    }
                }
            }
        }
    }
}

/// `Vec::dedup` on Symbols (derive(PartialEq): structural `==`) is `dedup_v` on their views
pub proof fn lemma_dedup_views(s: Seq<Symbol>)
    ensures views(dedup_seq(s)) == dedup_v(views(s)),
    decreases s.len(),
{
    if s.len() <= 1 {
        assert(views(dedup_seq(s)) =~= dedup_v(views(s)));
    } else {
        let n = s.len() as int;
        lemma_dedup_views(s.drop_last());
        assert(views(s).drop_last() =~= views(s.drop_last()));
        assert(views(s)[n - 2] == sview(s[n - 2]) && views(s).last() == sview(s.last()));
        if sview(s[n - 2]) == sview(s.last()) {
        } else {
            lemma_views_push(dedup_seq(s.drop_last()), s.last());
        }
    }
}

/// what `symbols.sort(); symbols.dedup();` leaves: THE ascending listing of the set of raw symbols
pub proof fn lemma_sort_dedup(raw: Seq<Symbol>, s1: Seq<Symbol>, s2: Seq<Symbol>, spec_raw: Seq<SymSpec>)
    requires
        views(raw) == spec_raw,
        s1.len() == raw.len(),
        forall|x: Symbol| #[trigger] s1.contains(x) <==> raw.contains(x),
        sorted_by_cmp(s1),
        s2 == dedup_seq(s1),
    ensures
        asc_listing(views(s2), spec_raw.to_set()),
        views(s2) == asc_seq(spec_raw.to_set()),
{
    let v1 = views(s1);
    assert(asc_le(v1)) by {
        assert forall|i: int, j: int| 0 <= i < j < v1.len() implies (#[trigger] v1[i]).lt(#[trigger] v1[j]) || v1[i] == v1[j] by {
            assert(vstd::std_specs::cmp::OrdSpec::cmp_spec(&s1[i], &s1[j]) == sym_cmp(s1[i], s1[j]));
            assert(vstd::std_specs::cmp::OrdSpec::cmp_spec(&s1[i], &s1[j]) != core::cmp::Ordering::Greater);
        }
    }
    lemma_dedup_asc(v1);
    lemma_dedup_views(s1);
    let v2 = views(s2);
    assert(v2 == dedup_v(v1));
    assert forall|y: SymSpec| #[trigger] v2.contains(y) <==> spec_raw.to_set().contains(y) by {
        assert(v2.contains(y) <==> v1.contains(y));
        if v1.contains(y) {
            let i = choose|i: int| 0 <= i < v1.len() && v1[i] == y;
            assert(s1.contains(s1[i]));
            assert(raw.contains(s1[i]));
            let k = choose|k: int| 0 <= k < raw.len() && raw[k] == s1[i];
            assert(views(raw)[k] == y);
            assert(spec_raw.contains(y));
        }
        if spec_raw.contains(y) {
            let k = choose|k: int| 0 <= k < spec_raw.len() && spec_raw[k] == y;
            assert(sview(raw[k]) == y);
            assert(raw.contains(raw[k]));
            assert(s1.contains(raw[k]));
            let i = choose|i: int| 0 <= i < s1.len() && s1[i] == raw[k];
            assert(v1[i] == y);
            assert(v1.contains(y));
        }
    }
    lemma_asc_seq_is(v2, spec_raw.to_set());
}

// ---- REBASING ---------------------------------------------------------------------------------------------

pub proof fn lemma_value_syms_shift(syms: Seq<Sym>, tab: Strtab, b: u64)
    ensures value_syms(syms, tab, b) == shift_syms(value_syms(syms, tab, 0), b),
    decreases syms.len(),
{
    if syms.len() > 0 {
        lemma_value_syms_shift(syms.drop_last(), tab, b);
    }
    assert(value_syms(syms, tab, b) =~= shift_syms(value_syms(syms, tab, 0), b));
}

pub proof fn lemma_plt_syms_shift(rels: Seq<Reloc>, dynsyms: Seq<Sym>, tab: Strtab, b: u64)
    ensures plt_syms(rels, dynsyms, tab, b) == shift_syms(plt_syms(rels, dynsyms, tab, 0), b),
    decreases rels.len(),
{
    if rels.len() > 0 {
        lemma_plt_syms_shift(rels.drop_last(), dynsyms, tab, b);
    }
    assert(plt_syms(rels, dynsyms, tab, b) =~= shift_syms(plt_syms(rels, dynsyms, tab, 0), b));
}

pub proof fn lemma_exported_syms_shift(syms: Seq<Sym>, tab: Strtab, b: u64)
    ensures exported_syms(syms, tab, b) == shift_syms(exported_syms(syms, tab, 0), b),
    decreases syms.len(),
{
    if syms.len() > 0 {
        lemma_exported_syms_shift(syms.drop_last(), tab, b);
    }
    assert(exported_syms(syms, tab, b) =~= shift_syms(exported_syms(syms, tab, 0), b));
}

pub open spec fn shift_sym(e: SymSpec, b: u64) -> SymSpec { SymSpec { address: e.address + b, name: e.name } }

/// REBASING of the symbols: loading at base b reports the symbols of base 0, each address exactly b higher,
/// same names, same order.  (`has_sym_listing`: an ascending listing of the raw symbol set exists — true of
/// every finite set; `symbols()` establishes it, for base 0 call it on the base-0 loader.)
pub open spec fn has_sym_listing(s: Set<SymSpec>) -> bool {
    exists|ks: Seq<SymSpec>| asc_listing(ks, s)
}

pub proof fn lemma_symbols_rebase(p: Parsed, b: u64)
    requires has_sym_listing(raw_symbols(p, 0).to_set()),
    ensures spec_symbols(p, b) == shift_syms(spec_symbols(p, 0), b),
{
    lemma_value_syms_shift(p.dynsyms@, p.dynstrtab, b);
    lemma_value_syms_shift(p.syms@, p.strtab, b);
    lemma_plt_syms_shift(p.pltrelocs@, p.dynsyms@, p.dynstrtab, b);
    let raw0 = raw_symbols(p, 0);
    let rawb = raw_symbols(p, b);
    assert(rawb =~= shift_syms(raw0, b));
    let k0 = spec_symbols(p, 0);
    assert(asc_listing(k0, raw0.to_set()));
    let kb = shift_syms(k0, b);
    assert(asc(kb)) by {
        assert forall|i: int, j: int| 0 <= i < j < kb.len() implies (#[trigger] kb[i]).lt(#[trigger] kb[j]) by {
            assert(k0[i].lt(k0[j]));
        }
    }
    assert forall|y: SymSpec| #[trigger] kb.contains(y) <==> rawb.to_set().contains(y) by {
        if kb.contains(y) {
            let i = choose|i: int| 0 <= i < kb.len() && kb[i] == y;
            assert(k0.contains(k0[i]));
            assert(raw0.contains(k0[i]));
            let k = choose|k: int| 0 <= k < raw0.len() && raw0[k] == k0[i];
            assert(rawb[k] == y);
            assert(rawb.contains(y));
        }
        if rawb.contains(y) {
            let k = choose|k: int| 0 <= k < rawb.len() && rawb[k] == y;
            assert(raw0.contains(raw0[k]));
            assert(k0.contains(raw0[k]));
            let i = choose|i: int| 0 <= i < k0.len() && k0[i] == raw0[k];
            assert(kb[i] == y);
            assert(kb.contains(y));
        }
    }
    lemma_asc_seq_is(kb, rawb.to_set());
}

// ---- exported symbols are symbols ---------------------------------------------------------------------------

pub proof fn lemma_exported_in_value_syms(syms: Seq<Sym>, tab: Strtab, base: u64, y: SymSpec)
    requires exported_syms(syms, tab, base).contains(y),
    ensures value_syms(syms, tab, base).contains(y),
    decreases syms.len(),
{
    if syms.len() > 0 {
        let pre_e = exported_syms(syms.drop_last(), tab, base);
        let pre_v = value_syms(syms.drop_last(), tab, base);
        let s = syms.last();
        let e = exported_syms(syms, tab, base);
        let v = value_syms(syms, tab, base);
        let i = choose|i: int| 0 <= i < e.len() && e[i] == y;
        if is_exported(s) && i == e.len() - 1 {
            assert(v[v.len() - 1] == y);
        } else {
            assert(pre_e[i] == y);
            assert(pre_e.contains(y));
            lemma_exported_in_value_syms(syms.drop_last(), tab, base, y);
            let k = choose|k: int| 0 <= k < pre_v.len() && pre_v[k] == y;
            assert(v[k] == y);
        }
    }
}

/// CONSISTENCY of exported_symbols() with symbols(): every exported symbol (same name, same rebased address)
/// is one of the symbols
pub proof fn lemma_exported_subset_symbols(p: Parsed, base: u64, y: SymSpec)
    requires
        has_sym_listing(raw_symbols(p, base).to_set()),
        exported_syms(p.dynsyms@, p.dynstrtab, base).contains(y),
    ensures spec_symbols(p, base).contains(y),
{
    lemma_exported_in_value_syms(p.dynsyms@, p.dynstrtab, base, y);
    let v = value_syms(p.dynsyms@, p.dynstrtab, base);
    let raw = raw_symbols(p, base);
    let k = choose|k: int| 0 <= k < v.len() && v[k] == y;
    assert(raw[k] == y);
    assert(raw.contains(y));
    assert(asc_listing(spec_symbols(p, base), raw.to_set()));
}
