// ======================================================================================
// units/C19/order_spec.rs — strictly ascending listings of a set are unique (for any strict total
// order).  Used twice: the values of a BTreeMap<u64, _> in key order (function_entries) and the
// sorted, de-duplicated symbol list (symbols).
// ======================================================================================

pub trait StrictOrd: Sized {
    spec fn lt(self, other: Self) -> bool;

    proof fn lt_irrefl(a: Self)
        ensures !a.lt(a);

    proof fn lt_trans(a: Self, b: Self, c: Self)
        requires a.lt(b), b.lt(c),
        ensures a.lt(c);

    proof fn lt_total(a: Self, b: Self)
        ensures a.lt(b) || a == b || b.lt(a);
}

impl StrictOrd for u64 {
    open spec fn lt(self, other: u64) -> bool { self < other }
    proof fn lt_irrefl(a: u64) {}
    proof fn lt_trans(a: u64, b: u64, c: u64) {}
    proof fn lt_total(a: u64, b: u64) {}
}

/// strictly ascending
pub open spec fn asc<T: StrictOrd>(s: Seq<T>) -> bool {
    forall|i: int, j: int| 0 <= i < j < s.len() ==> (#[trigger] s[i]).lt(#[trigger] s[j])
}

/// same elements (as sets)
pub open spec fn same_elems<T>(a: Seq<T>, b: Seq<T>) -> bool {
    forall|x: T| #[trigger] a.contains(x) <==> b.contains(x)
}

/// `ks` lists exactly the elements of `s`, strictly ascending
pub open spec fn asc_listing<T: StrictOrd>(ks: Seq<T>, s: Set<T>) -> bool {
    asc(ks) && forall|x: T| #[trigger] ks.contains(x) <==> s.contains(x)
}

pub proof fn lemma_asc_last_max<T: StrictOrd>(a: Seq<T>, x: T)
    requires asc(a), a.len() > 0, a.contains(x),
    ensures x == a.last() || x.lt(a.last()),
{
    let i = choose|i: int| 0 <= i < a.len() && a[i] == x;
    if i < a.len() - 1 {
        assert(a[i].lt(a[a.len() - 1]));
    }
}

pub proof fn lemma_asc_unique<T: StrictOrd>(a: Seq<T>, b: Seq<T>)
    requires asc(a), asc(b), same_elems(a, b),
    ensures a == b,
    decreases a.len(),
{
    if a.len() == 0 {
        if b.len() > 0 {
            assert(b.contains(b[0]));
            assert(a.contains(b[0]));
        }
        assert(a =~= b);
    } else {
        let x = a.last();
        assert(a.contains(a[a.len() - 1]));
        assert(b.contains(x));
        let y = b.last();
        assert(b.contains(b[b.len() - 1]));
        assert(a.contains(y));
        lemma_asc_last_max(a, y);
        lemma_asc_last_max(b, x);
        T::lt_irrefl(x);
        if y.lt(x) && x.lt(y) { T::lt_trans(x, y, x); }
        assert(x == y);
        let a1 = a.drop_last();
        let b1 = b.drop_last();
        assert(asc(a1)) by {
            assert forall|i: int, j: int| 0 <= i < j < a1.len() implies (#[trigger] a1[i]).lt(#[trigger] a1[j]) by {
                assert(a[i].lt(a[j]));
            }
        }
        assert(asc(b1)) by {
            assert forall|i: int, j: int| 0 <= i < j < b1.len() implies (#[trigger] b1[i]).lt(#[trigger] b1[j]) by {
                assert(b[i].lt(b[j]));
            }
        }
        assert forall|z: T| #[trigger] a1.contains(z) <==> b1.contains(z) by {
            if a1.contains(z) {
                let i = choose|i: int| 0 <= i < a1.len() && a1[i] == z;
                assert(a[i] == z);
                assert(a[i].lt(a[a.len() - 1]));
                assert(a.contains(z));
                assert(b.contains(z));
                let j = choose|j: int| 0 <= j < b.len() && b[j] == z;
                if j == b.len() - 1 { assert(z == x); }
                assert(b1[j] == z);
            }
            if b1.contains(z) {
                let i = choose|i: int| 0 <= i < b1.len() && b1[i] == z;
                assert(b[i] == z);
                assert(b[i].lt(b[b.len() - 1]));
                assert(b.contains(z));
                assert(a.contains(z));
                let j = choose|j: int| 0 <= j < a.len() && a[j] == z;
                if j == a.len() - 1 { assert(z == x); }
                assert(a1[j] == z);
            }
        }
        lemma_asc_unique(a1, b1);
        assert(a =~= a1.push(x));
        assert(b =~= b1.push(y));
    }
}

/// THE ascending listing of a set (meaningful when one exists, e.g. for finite sets)
pub open spec fn asc_seq<T: StrictOrd>(s: Set<T>) -> Seq<T> {
    choose|ks: Seq<T>| asc_listing(ks, s)
}

pub proof fn lemma_asc_seq_is<T: StrictOrd>(ks: Seq<T>, s: Set<T>)
    requires asc_listing(ks, s),
    ensures asc_seq(s) == ks,
{
    let c = asc_seq(s);
    assert(asc_listing(c, s));
    assert(same_elems(c, ks));
    lemma_asc_unique(c, ks);
}
