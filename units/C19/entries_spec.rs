// ======================================================================================
// units/C19/entries_spec.rs — the function entries of an ELF image, as a mathematical object:
// a map keyed by the UN-rebased address, built from dynsyms, then syms (a later symbol with the same
// st_value replaces an earlier one), then the program entry (if its address is not yet a key), then
// the user-supplied entries in order (each only if its address is not yet a key); reported in
// ascending key order with every address + base.  And the lemma "base B = base 0 shifted by B".
// ======================================================================================

pub type Sym = goblin::elf::sym::Sym;
pub type Strtab<'a> = goblin::strtab::Strtab<'a>;

/// where the name of an entry comes from
pub enum EntryName {
    /// the program entry: no name
    Anon,
    /// a symbol: the string-table entry of its st_name
    Sym(Seq<char>),
    /// a user-supplied entry at this (un-rebased) address; the code names it
    /// `format!("user_function_{:x}", address)` — the formatted text itself is not specified here
    User(u64),
}

pub struct EntrySpec {
    /// reported address (a mathematical integer: raw address + base)
    pub address: int,
    pub name: EntryName,
}

/// "defined function symbol"
pub open spec fn is_def_fn(s: Sym) -> bool {
    s.spec_is_function() && s.st_value != 0 && s.st_shndx > 0
}

pub open spec fn sym_entry(s: Sym, tab: Strtab, base: u64) -> EntrySpec {
    EntrySpec { address: s.st_value + base, name: EntryName::Sym(tab.name_at(s.st_name)) }
}

pub open spec fn add_sym(m: Map<u64, EntrySpec>, s: Sym, tab: Strtab, base: u64) -> Map<u64, EntrySpec> {
    if is_def_fn(s) { m.insert(s.st_value, sym_entry(s, tab, base)) } else { m }
}

pub open spec fn add_syms(m: Map<u64, EntrySpec>, syms: Seq<Sym>, tab: Strtab, base: u64) -> Map<u64, EntrySpec>
    decreases syms.len(),
{
    if syms.len() == 0 { m } else { add_sym(add_syms(m, syms.drop_last(), tab, base), syms.last(), tab, base) }
}

pub open spec fn add_program_entry(m: Map<u64, EntrySpec>, e: u64, base: u64) -> Map<u64, EntrySpec> {
    if m.contains_key(e) { m } else { m.insert(e, EntrySpec { address: e + base, name: EntryName::Anon }) }
}

pub open spec fn add_user(m: Map<u64, EntrySpec>, u: u64, base: u64) -> Map<u64, EntrySpec> {
    if m.contains_key(u) { m } else { m.insert(u, EntrySpec { address: u + base, name: EntryName::User(u) }) }
}

pub open spec fn add_users(m: Map<u64, EntrySpec>, users: Seq<u64>, base: u64) -> Map<u64, EntrySpec>
    decreases users.len(),
{
    if users.len() == 0 { m } else { add_user(add_users(m, users.drop_last(), base), users.last(), base) }
}

pub open spec fn entry_map(p: Parsed, users: Seq<u64>, base: u64) -> Map<u64, EntrySpec> {
    let m1 = add_syms(Map::<u64, EntrySpec>::empty(), p.dynsyms@, p.dynstrtab, base);
    let m2 = add_syms(m1, p.syms@, p.strtab, base);
    let m3 = add_program_entry(m2, p.header.e_entry, base);
    add_users(m3, users, base)
}

/// the values of a map in ascending key order
pub open spec fn sorted_values<V>(m: Map<u64, V>) -> Seq<V> {
    asc_seq(m.dom()).map_values(|k: u64| m[k])
}

/// THE FUNCTION ENTRIES of image `p` with user entries `users` loaded at `base`
pub open spec fn spec_entries(p: Parsed, users: Seq<u64>, base: u64) -> Seq<EntrySpec> {
    sorted_values(entry_map(p, users, base))
}

/// every address of a list of entries moved up by b (same names, same order)
pub open spec fn shift_entries(s: Seq<EntrySpec>, b: u64) -> Seq<EntrySpec> {
    s.map_values(|e: EntrySpec| EntrySpec { address: e.address + b, name: e.name })
}

// ---- relation between the executable values and the specification -------------------------------

pub open spec fn entry_matches(fe: FunctionEntry, es: EntrySpec) -> bool {
    &&& fe.address == es.address
    &&& match es.name {
        EntryName::Anon => fe.name is None,
        EntryName::Sym(n) => (fe.name matches Some(s) && s@ == n),
        EntryName::User(a) => fe.name is Some,
    }
}

pub open spec fn map_matches(c: Map<u64, FunctionEntry>, s: Map<u64, EntrySpec>) -> bool {
    &&& forall|k: u64| #[trigger] c.contains_key(k) <==> s.contains_key(k)
    &&& forall|k: u64| #[trigger] c.contains_key(k) ==> entry_matches(c[k], s[k])
}

pub open spec fn entries_match(v: Seq<FunctionEntry>, s: Seq<EntrySpec>) -> bool {
    &&& v.len() == s.len()
    &&& forall|i: int| 0 <= i < v.len() ==> entry_matches(#[trigger] v[i], s[i])
}

// ---- preconditions ("well-formed") ---------------------------------------------------------------

/// the defined function symbols of one table: address + base does not wrap, the name offset is valid
pub open spec fn fn_syms_wf(syms: Seq<Sym>, tab: Strtab, base: u64) -> bool {
    forall|i: int| 0 <= i < syms.len() && is_def_fn(#[trigger] syms[i]) ==>
        syms[i].st_value + base <= u64::MAX && tab.valid_at(syms[i].st_name)
}

pub open spec fn users_wf(users: Seq<u64>, base: u64) -> bool {
    forall|i: int| 0 <= i < users.len() ==> #[trigger] users[i] + base <= u64::MAX
}

pub open spec fn entries_wf(p: Parsed, users: Seq<u64>, base: u64) -> bool {
    &&& fn_syms_wf(p.dynsyms@, p.dynstrtab, base)
    &&& fn_syms_wf(p.syms@, p.strtab, base)
    &&& p.header.e_entry + base <= u64::MAX
    &&& users_wf(users, base)
}

// ---- unfolding by one element ---------------------------------------------------------------------

pub proof fn lemma_add_syms_step(m: Map<u64, EntrySpec>, syms: Seq<Sym>, tab: Strtab, base: u64, i: int)
    requires 0 <= i < syms.len(),
    ensures add_syms(m, syms.take(i + 1), tab, base) == add_sym(add_syms(m, syms.take(i), tab, base), syms[i], tab, base),
{
    assert(syms.take(i + 1).drop_last() =~= syms.take(i));
    assert(syms.take(i + 1).last() == syms[i]);
}

pub proof fn lemma_add_users_step(m: Map<u64, EntrySpec>, users: Seq<u64>, base: u64, i: int)
    requires 0 <= i < users.len(),
    ensures add_users(m, users.take(i + 1), base) == add_user(add_users(m, users.take(i), base), users[i], base),
{
    assert(users.take(i + 1).drop_last() =~= users.take(i));
    assert(users.take(i + 1).last() == users[i]);
}

/// the concrete map gets an entry that matches the specification's entry for the same key
pub proof fn lemma_insert_matches(c: Map<u64, FunctionEntry>, s: Map<u64, EntrySpec>, k: u64, fe: FunctionEntry, es: EntrySpec)
    requires map_matches(c, s), entry_matches(fe, es),
    ensures map_matches(c.insert(k, fe), s.insert(k, es)),
{
    let c2 = c.insert(k, fe);
    let s2 = s.insert(k, es);
    assert forall|j: u64| #[trigger] c2.contains_key(j) <==> s2.contains_key(j) by {
        if j != k { assert(c.contains_key(j) <==> s.contains_key(j)); }
    }
    assert forall|j: u64| #[trigger] c2.contains_key(j) implies entry_matches(c2[j], s2[j]) by {
        if j != k { assert(c.contains_key(j)); }
    }
}

/// listing the concrete map in ascending key order yields the specified entries
pub proof fn lemma_listing_matches(c: Map<u64, FunctionEntry>, s: Map<u64, EntrySpec>, ks: Seq<u64>, v: Seq<FunctionEntry>)
    requires
        map_matches(c, s),
        asc_listing(ks, c.dom()),
        v.len() == ks.len(),
        forall|i: int| 0 <= i < ks.len() ==> #[trigger] v[i] == c[ks[i]],
    ensures entries_match(v, sorted_values(s)),
{
    assert(asc_listing(ks, s.dom())) by {
        assert forall|x: u64| #[trigger] ks.contains(x) <==> s.dom().contains(x) by {
            assert(ks.contains(x) <==> c.dom().contains(x));
            assert(c.contains_key(x) <==> s.contains_key(x));
        }
    }
    lemma_asc_seq_is(ks, s.dom());
    let sv = sorted_values(s);
    assert(sv.len() == ks.len());
    assert forall|i: int| 0 <= i < v.len() implies entry_matches(#[trigger] v[i], sv[i]) by {
        assert(ks.contains(ks[i]));
        assert(c.contains_key(ks[i]));
        assert(sv[i] == s[ks[i]]);
    }
}

/// the same, phrased with the postcondition of the stand-in for `into_values().collect()`
pub proof fn lemma_key_order_listing_matches(c: Map<u64, FunctionEntry>, s: Map<u64, EntrySpec>, ks: Seq<u64>, v: Seq<FunctionEntry>)
    requires map_matches(c, s), u64_key_order_listing(c, ks, v),
    ensures entries_match(v, sorted_values(s)), has_listing(s.dom()),
{
    assert(asc_listing(ks, c.dom())) by {
        assert forall|i: int, j: int| 0 <= i < j < ks.len() implies (#[trigger] ks[i]).lt(#[trigger] ks[j]) by {}
        assert forall|x: u64| #[trigger] ks.contains(x) <==> c.dom().contains(x) by {}
    }
    lemma_listing_matches(c, s, ks, v);
    assert(asc_listing(ks, s.dom())) by {
        assert forall|x: u64| #[trigger] ks.contains(x) <==> s.dom().contains(x) by {
            assert(ks.contains(x) <==> c.contains_key(x));
            assert(c.contains_key(x) <==> s.contains_key(x));
        }
    }
}

// ---- REBASING --------------------------------------------------------------------------------------

/// mb is m0 with every reported address + b (same keys, same names)
pub open spec fn map_shifted(mb: Map<u64, EntrySpec>, m0: Map<u64, EntrySpec>, b: u64) -> bool {
    &&& mb.dom() =~= m0.dom()
    &&& forall|k: u64| #[trigger] m0.contains_key(k) ==> mb[k] == (EntrySpec { address: m0[k].address + b, name: m0[k].name })
}

pub proof fn lemma_add_syms_shifted(mb: Map<u64, EntrySpec>, m0: Map<u64, EntrySpec>, syms: Seq<Sym>, tab: Strtab, b: u64)
    requires map_shifted(mb, m0, b),
    ensures map_shifted(add_syms(mb, syms, tab, b), add_syms(m0, syms, tab, 0), b),
    decreases syms.len(),
{
    if syms.len() > 0 {
        lemma_add_syms_shifted(mb, m0, syms.drop_last(), tab, b);
    }
}

pub proof fn lemma_add_users_shifted(mb: Map<u64, EntrySpec>, m0: Map<u64, EntrySpec>, users: Seq<u64>, b: u64)
    requires map_shifted(mb, m0, b),
    ensures map_shifted(add_users(mb, users, b), add_users(m0, users, 0), b),
    decreases users.len(),
{
    if users.len() > 0 {
        lemma_add_users_shifted(mb, m0, users.drop_last(), b);
    }
}

/// an ascending listing of the key set exists (true of every finite set; `function_entries` establishes
/// it for the key set of the map it returns, which does not depend on the base)
pub open spec fn has_listing(s: Set<u64>) -> bool {
    exists|ks: Seq<u64>| asc_listing(ks, s)
}

/// REBASING of the function entries: loading at base b reports the entries of base 0, each address
/// exactly b higher, same names, same order.
pub proof fn lemma_entries_rebase(p: Parsed, users: Seq<u64>, b: u64)
    requires has_listing(entry_map(p, users, 0).dom()),
    ensures
        spec_entries(p, users, b) == shift_entries(spec_entries(p, users, 0), b),
        entry_map(p, users, b).dom() == entry_map(p, users, 0).dom(),
{
    let e = Map::<u64, EntrySpec>::empty();
    assert(map_shifted(e, e, b));
    lemma_add_syms_shifted(e, e, p.dynsyms@, p.dynstrtab, b);
    let b1 = add_syms(e, p.dynsyms@, p.dynstrtab, b);
    let z1 = add_syms(e, p.dynsyms@, p.dynstrtab, 0);
    lemma_add_syms_shifted(b1, z1, p.syms@, p.strtab, b);
    let b2 = add_syms(b1, p.syms@, p.strtab, b);
    let z2 = add_syms(z1, p.syms@, p.strtab, 0);
    let b3 = add_program_entry(b2, p.header.e_entry, b);
    let z3 = add_program_entry(z2, p.header.e_entry, 0);
    assert(map_shifted(b3, z3, b));
    lemma_add_users_shifted(b3, z3, users, b);
    let mb = entry_map(p, users, b);
    let m0 = entry_map(p, users, 0);
    assert(map_shifted(mb, m0, b));
    assert(mb.dom() == m0.dom());
    let ks = asc_seq(m0.dom());
    assert(asc_listing(ks, m0.dom()));
    let lhs = spec_entries(p, users, b);
    let rhs = shift_entries(spec_entries(p, users, 0), b);
    assert(lhs.len() == rhs.len());
    assert forall|i: int| 0 <= i < lhs.len() implies lhs[i] == rhs[i] by {
        assert(ks.contains(ks[i]));
        assert(m0.contains_key(ks[i]));
    }
    assert(lhs =~= rhs);
}
