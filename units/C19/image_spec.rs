// ======================================================================================
// units/C19/image_spec.rs — the mathematical memory image of an ELF file: the left fold, in header
// order, over the PT_LOAD program headers of unit C16's range override (`write_map`), starting from
// the empty memory; and the lemma "loading at base B = loading at base 0, shifted by B".
// ======================================================================================

pub type Parsed<'a> = goblin::elf::Elf<'a>;
pub type ProgramHeader = goblin::elf::program_header::ProgramHeader;
pub type ByteMap = IMap<u64, (u8, MemoryPermissions)>;

pub open spec fn is_load(ph: ProgramHeader) -> bool { ph.p_type == goblin::elf::program_header::PT_LOAD }

/// the R/W/X bits of `p_flags` as memory permissions: READ = 1, WRITE = 2, EXECUTE = 4
pub open spec fn seg_perm(flags: u32) -> MemoryPermissions {
    MemoryPermissions { bits: (
        (if flags & goblin::elf::program_header::PF_R != 0 { 1u32 } else { 0u32 })
        + (if flags & goblin::elf::program_header::PF_W != 0 { 2u32 } else { 0u32 })
        + (if flags & goblin::elf::program_header::PF_X != 0 { 4u32 } else { 0u32 })) as u32 }
}

pub open spec fn zeros(n: int) -> Seq<u8> { Seq::new(n as nat, |i: int| 0u8) }

/// what a loadable segment puts into memory: its file bytes followed by zero fill up to p_memsz
pub open spec fn seg_data(file: Seq<u8>, ph: ProgramHeader) -> Seq<u8> {
    file.subrange(ph.p_offset as int, ph.p_offset + ph.p_filesz) + zeros(ph.p_memsz - ph.p_filesz)
}

/// the file range of a loadable segment lies inside the file
pub open spec fn seg_in_file(file: Seq<u8>, ph: ProgramHeader) -> bool {
    ph.p_offset + ph.p_filesz <= file.len()
}

/// "well-formed" for one loadable segment at base `base` (the preconditions of `Elf::memory`):
///  * p_memsz >= p_filesz                   (defect (iii): the code underflows otherwise)
///  * p_offset + p_filesz and p_memsz fit usize   (the code casts them to usize)
///  * p_vaddr + base + p_memsz <= 2^64 - 1  (no address wrap; the same bound as unit C16's set_memory)
pub open spec fn seg_wf(ph: ProgramHeader, base: u64) -> bool {
    &&& ph.p_memsz >= ph.p_filesz
    &&& ph.p_offset + ph.p_filesz <= usize::MAX
    &&& ph.p_memsz <= usize::MAX
    &&& ph.p_vaddr + base + ph.p_memsz <= u64::MAX
}

pub open spec fn segs_wf(phs: Seq<ProgramHeader>, base: u64) -> bool {
    forall|i: int| 0 <= i < phs.len() && is_load(#[trigger] phs[i]) ==> seg_wf(phs[i], base)
}

pub open spec fn segs_in_file(file: Seq<u8>, phs: Seq<ProgramHeader>) -> bool {
    forall|i: int| 0 <= i < phs.len() && is_load(#[trigger] phs[i]) ==> seg_in_file(file, phs[i])
}

/// THE IMAGE: fold over the program headers in header order; a later segment overrides an earlier one
/// where they overlap (C16's write_map); non-PT_LOAD headers contribute nothing; nothing else is mapped.
pub open spec fn image(file: Seq<u8>, phs: Seq<ProgramHeader>, base: u64) -> ByteMap
    decreases phs.len(),
{
    if phs.len() == 0 {
        IMap::<u64, (u8, MemoryPermissions)>::empty()
    } else {
        let m = image(file, phs.drop_last(), base);
        let ph = phs.last();
        if is_load(ph) {
            write_map(m, (ph.p_vaddr + base) as u64, seg_data(file, ph), seg_perm(ph.p_flags))
        } else {
            m
        }
    }
}

/// a well-formed in-file segment contributes exactly p_memsz bytes
pub proof fn lemma_seg_data_len(file: Seq<u8>, ph: ProgramHeader, base: u64)
    requires seg_wf(ph, base), seg_in_file(file, ph),
    ensures seg_data(file, ph).len() == ph.p_memsz,
{
}

/// a byte map moved up by `b`
pub open spec fn shift_map(m: ByteMap, b: u64) -> ByteMap {
    IMap::new(|x: u64| x >= b && m.contains_key((x - b) as u64), |x: u64| m[(x - b) as u64])
}

/// nothing of the image lies at or above 2^64 - 1 - (what the well-formedness bound allows)
pub proof fn lemma_image_bound(file: Seq<u8>, phs: Seq<ProgramHeader>, base: u64, x: u64)
    requires segs_wf(phs, base), segs_in_file(file, phs), image(file, phs, base).contains_key(x),
    ensures
        exists|i: int| 0 <= i < phs.len() && is_load(#[trigger] phs[i])
            && phs[i].p_vaddr + base <= x < phs[i].p_vaddr + base + phs[i].p_memsz,
    decreases phs.len(),
{
    if phs.len() > 0 {
        let ph = phs.last();
        let pre = phs.drop_last();
        assert(segs_wf(pre, base) && segs_in_file(file, pre)) by {
            assert forall|i: int| 0 <= i < pre.len() && is_load(#[trigger] pre[i]) implies seg_wf(pre[i], base) && seg_in_file(file, pre[i]) by {
                assert(pre[i] == phs[i]);
            }
        }
        if is_load(ph) && ph.p_vaddr + base <= x < ph.p_vaddr + base + ph.p_memsz {
            assert(phs[phs.len() - 1] == ph);
        } else {
            assert(is_load(phs[phs.len() - 1]) ==> seg_wf(phs[phs.len() - 1], base) && seg_in_file(file, phs[phs.len() - 1]));
            if is_load(ph) { lemma_seg_data_len(file, ph, base); }
            assert(image(file, pre, base).contains_key(x));
            lemma_image_bound(file, pre, base, x);
            let i = choose|i: int| 0 <= i < pre.len() && is_load(#[trigger] pre[i])
                && pre[i].p_vaddr + base <= x < pre[i].p_vaddr + base + pre[i].p_memsz;
            assert(pre[i] == phs[i]);
        }
    }
}

/// REBASING of the memory image: the content loaded at base `b` is the content loaded at base 0,
/// every address exactly `b` higher (same bytes, same permissions, nothing else).
pub proof fn lemma_image_rebase(file: Seq<u8>, phs: Seq<ProgramHeader>, b: u64)
    requires segs_wf(phs, b), segs_in_file(file, phs),
    ensures image(file, phs, b) == shift_map(image(file, phs, 0), b), segs_wf(phs, 0),
    decreases phs.len(),
{
    assert(segs_wf(phs, 0));
    if phs.len() == 0 {
        assert(image(file, phs, b) =~= shift_map(image(file, phs, 0), b));
    } else {
        let ph = phs.last();
        let pre = phs.drop_last();
        assert(segs_wf(pre, b) && segs_in_file(file, pre)) by {
            assert forall|i: int| 0 <= i < pre.len() && is_load(#[trigger] pre[i]) implies seg_wf(pre[i], b) && seg_in_file(file, pre[i]) by {
                assert(pre[i] == phs[i]);
            }
        }
        lemma_image_rebase(file, pre, b);
        let mb = image(file, pre, b);
        let m0 = image(file, pre, 0);
        if is_load(ph) {
            assert(seg_wf(phs[phs.len() - 1], b) && seg_in_file(file, phs[phs.len() - 1]));
            lemma_seg_data_len(file, ph, b);
            let d = seg_data(file, ph);
            let p = seg_perm(ph.p_flags);
            assert(d.len() == ph.p_memsz);
            let lhs = write_map(mb, (ph.p_vaddr + b) as u64, d, p);
            let rhs = shift_map(write_map(m0, (ph.p_vaddr + 0) as u64, d, p), b);
            assert forall|x: u64| lhs.contains_key(x) == rhs.contains_key(x) && (lhs.contains_key(x) ==> lhs[x] == rhs[x]) by {
                if x >= b {
                    let y = (x - b) as u64;
                    assert((ph.p_vaddr + b <= x < ph.p_vaddr + b + d.len()) == (ph.p_vaddr <= y < ph.p_vaddr + d.len()));
                    assert(mb.contains_key(x) == m0.contains_key(y));
                } else {
                    assert(!mb.contains_key(x));
                }
            }
            assert(lhs =~= rhs);
        }
    }
}

pub proof fn lemma_same<T>(a: T, b: T) requires a == b {}

/// permission arithmetic: or-ing the selected flag constants into NONE gives the sum of the selected bits
pub proof fn lemma_perm_bits(r: bool, w: bool, x: bool)
    ensures
        ({
            let p0 = 0u32;
            let p1 = if r { p0 | 1u32 } else { p0 };
            let p2 = if w { p1 | 2u32 } else { p1 };
            let p3 = if x { p2 | 4u32 } else { p2 };
            p3
        }) == (if r { 1u32 } else { 0u32 }) + (if w { 2u32 } else { 0u32 }) + (if x { 4u32 } else { 0u32 }),
{
    assert(0u32 | 1u32 == 1u32) by (bit_vector);
    assert(0u32 | 2u32 == 2u32) by (bit_vector);
    assert(0u32 | 4u32 == 4u32) by (bit_vector);
    assert(1u32 | 2u32 == 3u32) by (bit_vector);
    assert(1u32 | 4u32 == 5u32) by (bit_vector);
    assert(2u32 | 4u32 == 6u32) by (bit_vector);
    assert(3u32 | 4u32 == 7u32) by (bit_vector);
}
