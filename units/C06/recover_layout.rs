// ======================================================================================
// units/C06/recover_layout.rs - the assembly phase of translate_function_extended: how the per-instruction graphs
// of the block translation results lie inside the assembled control-flow graph.  Only spec fns and lemmas.
//
// "Every instruction appears exactly once", in the form the code supports: for every instruction ADDRESS `a`
// occurring in a block translation result exactly one instruction graph `src[a]` (one that some result lists for
// `a`) has been copied into the big graph, as the index range [base[a], base[a] + #blocks) under the renaming
// `ren[a]`; the ranges of different addresses are disjoint and together they are ALL blocks of the big graph;
// `instruction_indices[a]` = (copy of src[a]'s entry, copy of its exit).
// ======================================================================================

pub type Results = Map<u64, BlockTranslationResult>;
pub type Indices = Map<u64, (usize, usize)>;

/// g2 holds every block of g, unchanged, and an edge wherever g has one (the guard of an edge may have been widened:
/// the successor phase replaces the guard of an existing edge by its disjunction with the guard of a parallel one)
pub open spec fn extends(g: ControlFlowGraph, g2: ControlFlowGraph) -> bool {
    &&& forall|k: usize| #![trigger g.graph.vertices@.contains_key(k)] g.graph.vertices@.contains_key(k) ==>
            g2.graph.vertices@.contains_key(k) && g2.graph.vertices@[k] == g.graph.vertices@[k]
    &&& forall|e: (usize, usize)| #![trigger g.graph.edges@.contains_key(e)] g.graph.edges@.contains_key(e) ==> g2.graph.edges@.contains_key(e)
    &&& g.next_index <= g2.next_index
}

pub proof fn lemma_extends_refl(g: ControlFlowGraph) ensures extends(g, g) {}

pub proof fn lemma_extends_trans(a: ControlFlowGraph, b: ControlFlowGraph, c: ControlFlowGraph)
    requires extends(a, b), extends(b, c),
    ensures extends(a, c),
{
    assert forall|k: usize| #![trigger a.graph.vertices@.contains_key(k)] a.graph.vertices@.contains_key(k) implies
        c.graph.vertices@.contains_key(k) && c.graph.vertices@[k] == a.graph.vertices@[k] by {
        assert(b.graph.vertices@.contains_key(k));
    }
    assert forall|e: (usize, usize)| #![trigger a.graph.edges@.contains_key(e)] a.graph.edges@.contains_key(e) implies
        c.graph.edges@.contains_key(e) by {
        assert(b.graph.edges@.contains_key(e));
    }
}

/// a successful unconditional_edge / conditional_edge extends the graph and keeps its blocks
pub proof fn lemma_edge_extends(o: ControlFlowGraph, n: ControlFlowGraph, e: Edge)
    requires n.edge_insert_spec(o, e, Ok(())),
    ensures extends(o, n), n.graph.vertices == o.graph.vertices, n.next_index == o.next_index, n.entry == o.entry,
        n.has_edge(e.head, e.tail), n.instr_budget() == o.instr_budget(),
{
    assert(n.edge_added(o, e));
    assert(!o.has_edge(e.head, e.tail));
    assert forall|k: (usize, usize)| #![trigger o.graph.edges@.contains_key(k)] o.graph.edges@.contains_key(k) implies
        n.graph.edges@.contains_key(k) by {
        assert(n.graph.edges@.dom().contains(k));
    }
    assert(n.graph.edges@.dom().contains((e.head, e.tail)));
}

/// the guard of an existing edge was replaced (ControlFlowGraph::edge_mut + Edge::condition_mut): same blocks, same edge set
pub proof fn lemma_guard_extends(o: ControlFlowGraph, n: ControlFlowGraph, h: usize, t: usize, e: Edge)
    requires
        o.graph.edges@.contains_key((h, t)), n.graph.edges@ == o.graph.edges@.insert((h, t), e),
        n.graph.vertices == o.graph.vertices, n.same_scalars(o),
    ensures extends(o, n), n.graph.edges@.contains_key((h, t)),
{
    assert forall|k: (usize, usize)| #![trigger o.graph.edges@.contains_key(k)] o.graph.edges@.contains_key(k) implies n.graph.edges@.contains_key(k) by {}
}

/// the copy of `g` under the block renaming `m` lies inside `big`, in the index range [b0, b0 + #blocks(g)); its
/// internal edges are edges of `big` (between the renamed blocks)
pub open spec fn placed(big: ControlFlowGraph, g: ControlFlowGraph, m: Map<usize, usize>, b0: usize) -> bool {
    &&& forall|k: usize| #![trigger m.contains_key(k)] m.contains_key(k) <==> g.graph.vertices@.contains_key(k)
    &&& forall|k: usize| #![trigger m[k]] m.contains_key(k) ==> b0 <= m[k] < b0 + g.graph.vertices@.len()
            && big.graph.vertices@.contains_key(m[k]) && big.graph.vertices@[m[k]] == reindexed_block(g.graph.vertices@[k], m[k])
    &&& forall|k1: usize, k2: usize| #![trigger m[k1], m[k2]] m.contains_key(k1) && m.contains_key(k2) && k1 != k2 ==> m[k1] != m[k2]
    &&& forall|h: usize, t: usize| #![trigger g.graph.edges@.contains_key((h, t))] g.graph.edges@.contains_key((h, t)) ==>
            big.graph.edges@.contains_key((m[h], m[t]))
}

pub proof fn lemma_placed_from_insert(o: ControlFlowGraph, n: ControlFlowGraph, g: ControlFlowGraph, m: Map<usize, usize>, minv: Map<usize, usize>)
    requires n.inserted_with(o, g, m, minv),
    ensures placed(n, g, m, o.next_index), extends(o, n),
        forall|k: usize| #![trigger n.graph.vertices@.contains_key(k)] n.graph.vertices@.contains_key(k) <==> (o.graph.vertices@.contains_key(k) || o.next_index <= k < o.next_index + g.graph.vertices@.len()),
{
    assert forall|k: usize| #![trigger m[k]] m.contains_key(k) implies o.next_index <= m[k] < o.next_index + g.graph.vertices@.len()
        && n.graph.vertices@.contains_key(m[k]) && n.graph.vertices@[m[k]] == reindexed_block(g.graph.vertices@[k], m[k]) by {
        assert(minv.contains_key(m[k]));
        assert(g.graph.vertices@.contains_key(k));
    }
    assert forall|k1: usize, k2: usize| #![trigger m[k1], m[k2]] m.contains_key(k1) && m.contains_key(k2) && k1 != k2 implies m[k1] != m[k2] by {
        assert(minv[m[k1]] == k1 && minv[m[k2]] == k2);
    }
}

pub proof fn lemma_placed_frame(big: ControlFlowGraph, big2: ControlFlowGraph, g: ControlFlowGraph, m: Map<usize, usize>, b0: usize)
    requires placed(big, g, m, b0), extends(big, big2),
    ensures placed(big2, g, m, b0),
{
    assert forall|k: usize| #![trigger m[k]] m.contains_key(k) implies b0 <= m[k] < b0 + g.graph.vertices@.len()
        && big2.graph.vertices@.contains_key(m[k]) && big2.graph.vertices@[m[k]] == reindexed_block(g.graph.vertices@[k], m[k]) by {
        assert(big.graph.vertices@.contains_key(m[k]));
    }
    assert forall|h: usize, t: usize| #![trigger g.graph.edges@.contains_key((h, t))] g.graph.edges@.contains_key((h, t)) implies
        big2.graph.edges@.contains_key((m[h], m[t])) by {
        assert(big.graph.edges@.contains_key((m[h], m[t])));
    }
}

/// where the copies are
pub ghost struct Layout {
    /// the instruction graph that was copied in for an address
    pub src: Map<u64, ControlFlowGraph>,
    /// the block renaming of that copy
    pub ren: Map<u64, Map<usize, usize>>,
    /// the first block index of that copy
    pub base: Map<u64, usize>,
}

pub open spec fn copy_len(l: Layout, a: u64) -> nat { l.src[a].graph.vertices@.len() }

/// some block translation result lists the instruction graph `g` for the address `a`
pub open spec fn listed(rs: Results, a: u64, g: ControlFlowGraph) -> bool {
    exists|k: u64, j: int| rs.contains_key(k) && 0 <= j < rs[k].instructions@.len() && #[trigger] rs[k].instructions@[j] == (a, g)
}

/// the copy for address `a`
pub open spec fn copy_ok(big: ControlFlowGraph, rs: Results, ii: Indices, l: Layout, a: u64) -> bool {
    &&& graph_ok(l.src[a])
    &&& placed(big, l.src[a], l.ren[a], l.base[a])
    &&& l.base[a] + copy_len(l, a) <= big.next_index
    &&& ii[a] == (l.ren[a][l.src[a].entry->0], l.ren[a][l.src[a].exit->0])
    &&& listed(rs, a, l.src[a])
}

/// one copy per inserted address, pairwise disjoint, covering all blocks of `big`
#[verifier::opaque]
pub open spec fn layout_inv(big: ControlFlowGraph, rs: Results, ii: Indices, l: Layout) -> bool {
    &&& forall|a: u64| #![trigger ii.contains_key(a)] ii.contains_key(a) ==> copy_ok(big, rs, ii, l, a)
    &&& forall|a: u64, b: u64| #![trigger ii.contains_key(a), ii.contains_key(b)] ii.contains_key(a) && ii.contains_key(b) && a != b ==>
            l.base[a] + copy_len(l, a) <= l.base[b] || l.base[b] + copy_len(l, b) <= l.base[a]
    &&& forall|v: usize| #![trigger big.graph.vertices@.contains_key(v)] big.graph.vertices@.contains_key(v) ==>
            exists|a: u64| #[trigger] ii.contains_key(a) && l.base[a] <= v < l.base[a] + copy_len(l, a)
}

pub open spec fn layout_insert(l: Layout, a: u64, g: ControlFlowGraph, m: Map<usize, usize>, b0: usize) -> Layout {
    Layout { src: l.src.insert(a, g), ren: l.ren.insert(a, m), base: l.base.insert(a, b0) }
}

/// entry / exit indices recorded for `a` are blocks of the big graph
pub proof fn lemma_layout_blocks(big: ControlFlowGraph, rs: Results, ii: Indices, l: Layout, a: u64)
    requires layout_inv(big, rs, ii, l), ii.contains_key(a),
    ensures big.graph.vertices@.contains_key(ii[a].0), big.graph.vertices@.contains_key(ii[a].1),
{
    reveal(layout_inv);
    assert(copy_ok(big, rs, ii, l, a));
    let g = l.src[a];
    let m = l.ren[a];
    assert(g.graph.vertices@.contains_key(g.entry->0) && g.graph.vertices@.contains_key(g.exit->0));
    assert(m.contains_key(g.entry->0) && m.contains_key(g.exit->0));
}

/// a new address got its copy (ControlFlowGraph::insert succeeded)
pub proof fn lemma_layout_insert(o: ControlFlowGraph, n: ControlFlowGraph, g: ControlFlowGraph, m: Map<usize, usize>, minv: Map<usize, usize>,
                                 rs: Results, ii: Indices, l: Layout, a: u64)
    requires
        layout_inv(o, rs, ii, l), !ii.contains_key(a),
        n.inserted_with(o, g, m, minv), graph_ok(g), listed(rs, a, g),
        n.next_index == o.next_index + g.graph.vertices@.len(),
    ensures
        layout_inv(n, rs, ii.insert(a, (m[g.entry->0], m[g.exit->0])), layout_insert(l, a, g, m, o.next_index)),
        extends(o, n),
{
    reveal(layout_inv);
    let ii2 = ii.insert(a, (m[g.entry->0], m[g.exit->0]));
    let l2 = layout_insert(l, a, g, m, o.next_index);
    lemma_placed_from_insert(o, n, g, m, minv);
    assert forall|b: u64| #![trigger ii2.contains_key(b)] ii2.contains_key(b) implies copy_ok(n, rs, ii2, l2, b) by {
        if b != a {
            assert(ii.contains_key(b));
            assert(copy_ok(o, rs, ii, l, b));
            lemma_placed_frame(o, n, l.src[b], l.ren[b], l.base[b]);
        }
    }
    assert forall|b: u64, c: u64| #![trigger ii2.contains_key(b), ii2.contains_key(c)] ii2.contains_key(b) && ii2.contains_key(c) && b != c implies
        l2.base[b] + copy_len(l2, b) <= l2.base[c] || l2.base[c] + copy_len(l2, c) <= l2.base[b] by {
        if b != a { assert(ii.contains_key(b)); assert(copy_ok(o, rs, ii, l, b)); }
        if c != a { assert(ii.contains_key(c)); assert(copy_ok(o, rs, ii, l, c)); }
    }
    assert forall|v: usize| #![trigger n.graph.vertices@.contains_key(v)] n.graph.vertices@.contains_key(v) implies
        exists|b: u64| #[trigger] ii2.contains_key(b) && l2.base[b] <= v < l2.base[b] + copy_len(l2, b) by {
        if o.graph.vertices@.contains_key(v) {
            let b = choose|b: u64| #[trigger] ii.contains_key(b) && l.base[b] <= v < l.base[b] + copy_len(l, b);
            assert(ii2.contains_key(b) && l2.base[b] <= v < l2.base[b] + copy_len(l2, b));
        } else {
            assert(ii2.contains_key(a) && l2.base[a] <= v < l2.base[a] + copy_len(l2, a));
        }
    }
}

/// edges were added, the blocks are the same
pub proof fn lemma_layout_frame(o: ControlFlowGraph, n: ControlFlowGraph, rs: Results, ii: Indices, l: Layout)
    requires layout_inv(o, rs, ii, l), extends(o, n), n.graph.vertices == o.graph.vertices,
    ensures layout_inv(n, rs, ii, l),
{
    reveal(layout_inv);
    assert forall|b: u64| #![trigger ii.contains_key(b)] ii.contains_key(b) implies copy_ok(n, rs, ii, l, b) by {
        assert(copy_ok(o, rs, ii, l, b));
        lemma_placed_frame(o, n, l.src[b], l.ren[b], l.base[b]);
    }
    assert forall|v: usize| #![trigger n.graph.vertices@.contains_key(v)] n.graph.vertices@.contains_key(v) implies
        exists|b: u64| #[trigger] ii.contains_key(b) && l.base[b] <= v < l.base[b] + copy_len(l, b) by {
        assert(o.graph.vertices@.contains_key(v));
    }
}

/// more results: what was listed stays listed
pub proof fn lemma_layout_results(big: ControlFlowGraph, rs: Results, rs2: Results, ii: Indices, l: Layout)
    requires layout_inv(big, rs, ii, l), forall|k: u64| rs.contains_key(k) ==> rs2.contains_key(k) && #[trigger] rs2[k] == rs[k],
    ensures layout_inv(big, rs2, ii, l),
{
    reveal(layout_inv);
    assert forall|b: u64| #![trigger ii.contains_key(b)] ii.contains_key(b) implies copy_ok(big, rs2, ii, l, b) by {
        assert(copy_ok(big, rs, ii, l, b));
        let (k, j) = choose|k: u64, j: int| rs.contains_key(k) && 0 <= j < rs[k].instructions@.len() && #[trigger] rs[k].instructions@[j] == (b, l.src[b]);
        assert(rs2[k] == rs[k]);
        assert(rs2.contains_key(k) && rs2[k].instructions@[j] == (b, l.src[b]));
    }
}

// ---------------------------------------------------------------------------------------------
// blocks of the native code: the chain of their instructions

/// the address of the j-th instruction of a block translation result
pub open spec fn ins_addr(b: BlockTranslationResult, j: int) -> u64 { b.instructions@[j].0 }

/// ii2 holds everything ii holds
pub open spec fn ii_sub(ii: Indices, ii2: Indices) -> bool {
    forall|a: u64| #![trigger ii.contains_key(a)] ii.contains_key(a) ==> ii2.contains_key(a) && ii2[a] == ii[a]
}

/// state of the inner assembly loop after `j` instructions of the block translation result `b`:
/// all of them have indices, consecutive ones are linked exit -> entry, and the three locals track the chain
#[verifier::opaque]
pub open spec fn chain_upto(big: ControlFlowGraph, b: BlockTranslationResult, ii: Indices, j: int) -> bool {
    &&& forall|p: int| 0 <= p < j ==> ii.contains_key(#[trigger] ins_addr(b, p))
    &&& forall|p: int| 0 < p < j ==> big.graph.edges@.contains_key((ii[ins_addr(b, p - 1)].1, ii[#[trigger] ins_addr(b, p)].0))
}

/// a block translation result completely assembled; `be` = its (entry, exit) pair in block_indices
pub open spec fn block_done(big: ControlFlowGraph, b: BlockTranslationResult, ii: Indices, be: (usize, usize)) -> bool {
    &&& b.instructions@.len() > 0
    &&& chain_upto(big, b, ii, b.instructions@.len() as int)
    &&& be.0 == ii[ins_addr(b, 0)].0
    &&& be.1 == ii[ins_addr(b, b.instructions@.len() - 1)].1
}

pub proof fn lemma_chain_frame(big: ControlFlowGraph, big2: ControlFlowGraph, b: BlockTranslationResult, ii: Indices, ii2: Indices, j: int)
    requires chain_upto(big, b, ii, j), extends(big, big2), ii_sub(ii, ii2),
    ensures chain_upto(big2, b, ii2, j),
{
    reveal(chain_upto);
    assert forall|p: int| 0 <= p < j implies ii2.contains_key(#[trigger] ins_addr(b, p)) by {
        assert(ii.contains_key(ins_addr(b, p)));
    }
    assert forall|p: int| 0 < p < j implies big2.graph.edges@.contains_key((ii2[ins_addr(b, p - 1)].1, ii2[#[trigger] ins_addr(b, p)].0)) by {
        assert(ii.contains_key(ins_addr(b, p)) && ii.contains_key(ins_addr(b, p - 1)));
        assert(big.graph.edges@.contains_key((ii[ins_addr(b, p - 1)].1, ii[ins_addr(b, p)].0)));
    }
}

pub proof fn lemma_block_frame(big: ControlFlowGraph, big2: ControlFlowGraph, b: BlockTranslationResult, ii: Indices, ii2: Indices, be: (usize, usize))
    requires block_done(big, b, ii, be), extends(big, big2), ii_sub(ii, ii2),
    ensures block_done(big2, b, ii2, be),
{
    reveal(chain_upto);
    lemma_chain_frame(big, big2, b, ii, ii2, b.instructions@.len() as int);
    assert(ii.contains_key(ins_addr(b, 0)) && ii.contains_key(ins_addr(b, b.instructions@.len() - 1)));
}

/// every block translation result that has block indices is completely assembled
#[verifier::opaque]
pub open spec fn blocks_done(big: ControlFlowGraph, rs: Results, ii: Indices, bi: Indices) -> bool {
    forall|k: u64| #![trigger bi.contains_key(k)] bi.contains_key(k) ==> rs.contains_key(k) && block_done(big, rs[k], ii, bi[k])
}

pub proof fn lemma_blocks_frame(big: ControlFlowGraph, big2: ControlFlowGraph, rs: Results, ii: Indices, ii2: Indices, bi: Indices)
    requires blocks_done(big, rs, ii, bi), extends(big, big2), ii_sub(ii, ii2),
    ensures blocks_done(big2, rs, ii2, bi),
{
    reveal(blocks_done);
    assert forall|k: u64| #![trigger bi.contains_key(k)] bi.contains_key(k) implies rs.contains_key(k) && block_done(big2, rs[k], ii2, bi[k]) by {
        lemma_block_frame(big, big2, rs[k], ii, ii2, bi[k]);
    }
}

/// the block entry / exit recorded for a result are blocks of the big graph
pub proof fn lemma_block_ends(big: ControlFlowGraph, rs: Results, ii: Indices, l: Layout, bi: Indices, k: u64)
    requires layout_inv(big, rs, ii, l), blocks_done(big, rs, ii, bi), bi.contains_key(k),
    ensures big.graph.vertices@.contains_key(bi[k].0), big.graph.vertices@.contains_key(bi[k].1),
{
    reveal(blocks_done);
    reveal(chain_upto);
    let b = rs[k];
    assert(block_done(big, b, ii, bi[k]));
    assert(ii.contains_key(ins_addr(b, 0)) && ii.contains_key(ins_addr(b, b.instructions@.len() - 1)));
    lemma_layout_blocks(big, rs, ii, l, ins_addr(b, 0));
    lemma_layout_blocks(big, rs, ii, l, ins_addr(b, b.instructions@.len() - 1));
}

pub proof fn lemma_layout_empty(big: ControlFlowGraph, rs: Results)
    requires big.graph.vertices@ == Map::<usize, Block>::empty(),
    ensures
        layout_inv(big, rs, Map::<u64, (usize, usize)>::empty(), Layout { src: Map::empty(), ren: Map::empty(), base: Map::empty() }),
        blocks_done(big, rs, Map::<u64, (usize, usize)>::empty(), Map::<u64, (usize, usize)>::empty()),
{
    reveal(layout_inv);
    reveal(blocks_done);
}

pub proof fn lemma_chain_start(big: ControlFlowGraph, b: BlockTranslationResult, ii: Indices)
    ensures chain_upto(big, b, ii, 0),
{
    reveal(chain_upto);
}

/// the j-th instruction has indices and (for j > 0) is linked to its predecessor
pub proof fn lemma_chain_step(big: ControlFlowGraph, b: BlockTranslationResult, ii: Indices, j: int)
    requires
        chain_upto(big, b, ii, j), 0 <= j, ii.contains_key(ins_addr(b, j)),
        j > 0 ==> big.graph.edges@.contains_key((ii[ins_addr(b, j - 1)].1, ii[ins_addr(b, j)].0)),
    ensures chain_upto(big, b, ii, j + 1),
{
    reveal(chain_upto);
}

pub proof fn lemma_chain_has(big: ControlFlowGraph, b: BlockTranslationResult, ii: Indices, j: int, p: int)
    requires chain_upto(big, b, ii, j), 0 <= p < j,
    ensures ii.contains_key(ins_addr(b, p)),
{
    reveal(chain_upto);
}

/// the result stored under `key` is completely assembled and gets the block indices `be`
pub proof fn lemma_blocks_insert(big: ControlFlowGraph, rs: Results, ii: Indices, bi: Indices, key: u64, be: (usize, usize))
    requires
        blocks_done(big, rs, ii, bi), rs.contains_key(key), rs[key].instructions@.len() > 0,
        chain_upto(big, rs[key], ii, rs[key].instructions@.len() as int),
        be.0 == ii[ins_addr(rs[key], 0)].0, be.1 == ii[ins_addr(rs[key], rs[key].instructions@.len() - 1)].1,
    ensures blocks_done(big, rs, ii, bi.insert(key, be)),
{
    reveal(blocks_done);
    let bi2 = bi.insert(key, be);
    assert forall|k: u64| #![trigger bi2.contains_key(k)] bi2.contains_key(k) implies rs.contains_key(k) && block_done(big, rs[k], ii, bi2[k]) by {
        if k != key { assert(bi.contains_key(k)); }
    }
}

/// what blocks_done says about one key
pub proof fn lemma_blocks_get(big: ControlFlowGraph, rs: Results, ii: Indices, bi: Indices, k: u64)
    requires blocks_done(big, rs, ii, bi), bi.contains_key(k),
    ensures rs.contains_key(k), block_done(big, rs[k], ii, bi[k]),
{
    reveal(blocks_done);
}

// ---------------------------------------------------------------------------------------------
// the edge phases

/// every result has block indices
pub open spec fn keyed(rs: Results, bi: Indices) -> bool { forall|k: u64| #![trigger rs.contains_key(k)] rs.contains_key(k) ==> bi.contains_key(k) }

/// the recorded block entries / exits are blocks
pub open spec fn ends_ok(big: ControlFlowGraph, bi: Indices) -> bool {
    forall|k: u64| #![trigger bi.contains_key(k)] bi.contains_key(k) ==> big.graph.vertices@.contains_key(bi[k].0) && big.graph.vertices@.contains_key(bi[k].1)
}

pub proof fn lemma_all_keyed(s: Seq<(&u64, &BlockTranslationResult)>, n: int, rs: Results, bi: Indices)
    requires graph::seq_lists_map(s, rs), forall|i: int| 0 <= i < n ==> bi.contains_key(*(#[trigger] s[i]).0),
    ensures n == s.len() ==> keyed(rs, bi),
{
    if n != s.len() { return; }
    graph::lemma_seq_lists_map(s, rs);
    assert forall|k: u64| #![trigger rs.contains_key(k)] rs.contains_key(k) implies bi.contains_key(k) by {
        let i = choose|i: int| 0 <= i < s.len() && *(#[trigger] s[i]).0 == k;
    }
}

pub proof fn lemma_all_block_ends(big: ControlFlowGraph, rs: Results, ii: Indices, l: Layout, bi: Indices)
    requires layout_inv(big, rs, ii, l), blocks_done(big, rs, ii, bi),
    ensures ends_ok(big, bi),
{
    assert forall|k: u64| #![trigger bi.contains_key(k)] bi.contains_key(k) implies big.graph.vertices@.contains_key(bi[k].0) && big.graph.vertices@.contains_key(bi[k].1) by {
        lemma_block_ends(big, rs, ii, l, bi, k);
    }
}

/// the first n manual edges are edges of the graph: exit of the head's block -> entry of the tail's block
pub open spec fn me_done(big: ControlFlowGraph, o: Options, bi: Indices, n: int) -> bool {
    forall|i: int| 0 <= i < n ==> big.graph.edges@.contains_key((bi[#[trigger] me_head(o, i)].1, bi[me_tail(o, i)].0))
}

pub proof fn lemma_me_done_frame(g: ControlFlowGraph, g2: ControlFlowGraph, o: Options, bi: Indices, n: int)
    requires me_done(g, o, bi, n), extends(g, g2), g2.graph.edges@.contains_key((bi[me_head(o, n)].1, bi[me_tail(o, n)].0)),
    ensures me_done(g2, o, bi, n + 1),
{
    assert forall|i: int| 0 <= i < n + 1 implies g2.graph.edges@.contains_key((bi[#[trigger] me_head(o, i)].1, bi[me_tail(o, i)].0)) by {
        if i < n { assert(g.graph.edges@.contains_key((bi[me_head(o, i)].1, bi[me_tail(o, i)].0))); }
    }
}

/// the first n successors of the result `b` stored under `k` are edges: exit of b's block -> entry of the successor's block
pub open spec fn succ_done(big: ControlFlowGraph, b: BlockTranslationResult, bi: Indices, k: u64, n: int) -> bool {
    forall|s: int| 0 <= s < n ==> big.graph.edges@.contains_key((bi[k].1, bi[(#[trigger] b.successors@[s]).0].0))
}

/// one more successor edge is there (it existed or was added): everything established so far is kept
pub proof fn lemma_succ_step(g: ControlFlowGraph, g2: ControlFlowGraph, g3: ControlFlowGraph, o: Options, bi: Indices,
                             sq: Seq<(&u64, &BlockTranslationResult)>, i6: int, b: BlockTranslationResult, k: u64, si: int)
    requires
        extends(g, g2), extends(g3, g),
        me_done(g, o, bi, o.manual_edges@.len() as int),
        forall|p: int| 0 <= p < i6 ==> succ_done(g, *(#[trigger] sq[p]).1, bi, *sq[p].0, sq[p].1.successors@.len() as int),
        succ_done(g, b, bi, k, si),
        g2.graph.edges@.contains_key((bi[k].1, bi[b.successors@[si].0].0)),
    ensures
        extends(g3, g2),
        me_done(g2, o, bi, o.manual_edges@.len() as int),
        forall|p: int| 0 <= p < i6 ==> succ_done(g2, *(#[trigger] sq[p]).1, bi, *sq[p].0, sq[p].1.successors@.len() as int),
        succ_done(g2, b, bi, k, si + 1),
{
    lemma_extends_trans(g3, g, g2);
    assert forall|i: int| 0 <= i < o.manual_edges@.len() implies g2.graph.edges@.contains_key((bi[#[trigger] me_head(o, i)].1, bi[me_tail(o, i)].0)) by {
        assert(g.graph.edges@.contains_key((bi[me_head(o, i)].1, bi[me_tail(o, i)].0)));
    }
    assert forall|p: int| 0 <= p < i6 implies succ_done(g2, *(#[trigger] sq[p]).1, bi, *sq[p].0, sq[p].1.successors@.len() as int) by {
        let bb = *sq[p].1;
        let kk = *sq[p].0;
        assert(succ_done(g, bb, bi, kk, bb.successors@.len() as int));
        assert forall|s: int| 0 <= s < bb.successors@.len() implies g2.graph.edges@.contains_key((bi[kk].1, bi[(#[trigger] bb.successors@[s]).0].0)) by {
            assert(g.graph.edges@.contains_key((bi[kk].1, bi[bb.successors@[s].0].0)));
        }
    }
    assert forall|s: int| 0 <= s < si + 1 implies g2.graph.edges@.contains_key((bi[k].1, bi[(#[trigger] b.successors@[s]).0].0)) by {
        if s < si { assert(g.graph.edges@.contains_key((bi[k].1, bi[b.successors@[s].0].0))); }
    }
}

// ---------------------------------------------------------------------------------------------
// resource bounds

pub proof fn lemma_mul_le(a: nat, b: nat, c: nat)
    requires a <= b,
    ensures a * c <= b * c,
{
    assert(a * c <= b * c) by (nonlinear_arith) requires a <= b;
}


pub proof fn lemma_cap_step(idx: nat, n: nat, ulen: nat, cap: nat)
    requires idx < n <= ulen, ulen * cap <= usize::MAX,
    ensures (idx + 1) * cap == idx * cap + cap, (idx + 1) * cap <= usize::MAX, idx * cap <= usize::MAX,
{
    assert((idx + 1) * cap == idx * cap + cap) by (nonlinear_arith);
    assert((idx + 1) * cap <= ulen * cap) by (nonlinear_arith) requires idx + 1 <= ulen;
    assert(idx * cap <= (idx + 1) * cap) by (nonlinear_arith);
}

// ---------------------------------------------------------------------------------------------
// the result

/// where a stored result comes from: the window at its address is empty and it is the one-empty-block result the
/// recovery code builds itself, or it is something `translate_block` may return for that (non-empty) window
pub open spec fn result_origin(tv: TrView, mv: MemView, o: Options, k: u64, b: BlockTranslationResult) -> bool {
    exists|bytes: Seq<u8>| #[trigger] is_window(mv, k, DEFAULT_TRANSLATION_BLOCK_BYTES, bytes)
        && (if bytes.len() == 0 { empty_result(b, k) } else { (tv.may_return)(bytes, k, o, b) })
}

pub open spec fn origins_ok(tv: TrView, mv: MemView, o: Options, rs: Results) -> bool {
    forall|k: u64| rs.contains_key(k) ==> result_origin(tv, mv, o, k, #[trigger] rs[k])
}

pub proof fn lemma_origins_insert(tv: TrView, mv: MemView, o: Options, rs: Results, x: u64, b: BlockTranslationResult)
    requires origins_ok(tv, mv, o, rs), result_origin(tv, mv, o, x, b),
    ensures origins_ok(tv, mv, o, rs.insert(x, b)),
{
    let rs2 = rs.insert(x, b);
    assert forall|k: u64| rs2.contains_key(k) implies result_origin(tv, mv, o, k, #[trigger] rs2[k]) by {
        if k != x { assert(rs.contains_key(k) && rs2[k] == rs[k]); }
    }
}

/// every successor of every result is an edge: exit of the result's block -> entry of the successor's block
pub open spec fn all_succ_done(big: ControlFlowGraph, rs: Results, bi: Indices) -> bool {
    forall|k: u64| #![trigger rs.contains_key(k)] rs.contains_key(k) ==> succ_done(big, rs[k], bi, k, rs[k].successors@.len() as int)
}

pub proof fn lemma_all_succ(sq: Seq<(&u64, &BlockTranslationResult)>, n: int, big: ControlFlowGraph, rs: Results, bi: Indices)
    requires
        graph::seq_lists_map(sq, rs),
        forall|p: int| 0 <= p < n ==> succ_done(big, *(#[trigger] sq[p]).1, bi, *sq[p].0, sq[p].1.successors@.len() as int),
    ensures n == sq.len() ==> all_succ_done(big, rs, bi),
{
    if n != sq.len() { return; }
    graph::lemma_seq_lists_map(sq, rs);
    assert forall|k: u64| #![trigger rs.contains_key(k)] rs.contains_key(k) implies succ_done(big, rs[k], bi, k, rs[k].successors@.len() as int) by {
        let i = choose|i: int| 0 <= i < sq.len() && *(#[trigger] sq[i]).0 == k;
        assert(rs.contains_pair(*sq[i].0, *sq[i].1));
        assert(succ_done(big, *sq[i].1, bi, *sq[i].0, sq[i].1.successors@.len() as int));
    }
}

/// the state of translate_function_extended just before `merge()`
pub ghost struct Recovery {
    /// the assembled control-flow graph
    pub graph: ControlFlowGraph,
    /// the block translation results, by block address
    pub results: Results,
    /// instruction_indices: instruction address -> (entry, exit) block of its copy
    pub ii: Indices,
    /// block_indices: block address -> (entry of its first instruction, exit of its last instruction)
    pub bi: Indices,
    /// where the copies of the instruction graphs are
    pub layout: Layout,
}

/// WHAT FUNCTION RECOVERY BUILDS (before merging), for the function address `fa`, the options `o`, a memory `mv` and a
/// translator `tv`:
///  * the results are closed (the function address, every manual-edge endpoint and every successor of a result has a
///    result), each one is the translator's answer for the window at its address (or the empty block for an empty window);
///  * every instruction address occurring in a result has exactly one copy of one of the instruction graphs listed for
///    it in the graph, the copies are disjoint and are all there is (layout_inv);
///  * the instructions of every result are chained exit -> entry in their order (blocks_done), every manual edge and
///    every successor is an edge from the exit of the source block to the entry of the target block;
///  * the entry of the graph is the entry of the copy made for the instruction at `fa`.
pub open spec fn recovered(tv: TrView, mv: MemView, o: Options, fa: u64, w: Recovery) -> bool {
    &&& w.graph.cfg_wf()
    &&& closed(w.results, o, fa)
    &&& results_ok(w.results, tv.cap_blocks, tv.cap_budget)
    &&& origins_ok(tv, mv, o, w.results)
    &&& layout_inv(w.graph, w.results, w.ii, w.layout)
    &&& keyed(w.results, w.bi)
    &&& blocks_done(w.graph, w.results, w.ii, w.bi)
    &&& me_done(w.graph, o, w.bi, o.manual_edges@.len() as int)
    &&& all_succ_done(w.graph, w.results, w.bi)
    &&& w.ii.contains_key(fa)
    &&& w.graph.entry == Some(w.ii[fa].0)
}

/// `m` is what `merge()` leaves of `g`: same entry, no new blocks, well formed (unit C15's contract of merge)
pub open spec fn merged_from(m: ControlFlowGraph, g: ControlFlowGraph) -> bool {
    &&& m.cfg_wf()
    &&& m.entry == g.entry
    &&& m.next_index == g.next_index
    &&& forall|k: usize| #![trigger m.graph.vertices@.contains_key(k)] m.graph.vertices@.contains_key(k) ==> g.graph.vertices@.contains_key(k)
    // unit C15's trace theorem of `merge`: the same execution traces from the entry (operations, addresses, guards taken), in both directions
    &&& m.exec_equiv(g)
    &&& m.phi_nodes_kept(g)
}

/// the postcondition of translate_function_extended
pub open spec fn lifted_ok(tv: TrView, mv: MemView, o: Options, fa: u64, f: Function) -> bool {
    &&& f.function_wf()
    &&& f.address == fa
    &&& f.name is None && f.index is None
    &&& (f.control_flow_graph.entry matches Some(e) && f.control_flow_graph.graph.vertices@.contains_key(e))
    &&& exists|w: Recovery| #[trigger] recovered(tv, mv, o, fa, w) && merged_from(f.control_flow_graph, w.graph)
}

/// the entry was set to block_indices[fa].0: assemble `recovered`
pub proof fn lemma_recovered(tv: TrView, mv: MemView, o: Options, fa: u64, g: ControlFlowGraph, g2: ControlFlowGraph,
                             rs: Results, ii: Indices, bi: Indices, l: Layout)
    requires
        g.cfg_wf(), g2.cfg_wf(), g2.graph == g.graph, g2.next_index == g.next_index,
        closed(rs, o, fa), results_ok(rs, tv.cap_blocks, tv.cap_budget), origins_ok(tv, mv, o, rs),
        layout_inv(g, rs, ii, l), keyed(rs, bi), blocks_done(g, rs, ii, bi),
        me_done(g, o, bi, o.manual_edges@.len() as int), all_succ_done(g, rs, bi),
        g2.entry == Some(bi[fa].0),
    ensures
        recovered(tv, mv, o, fa, Recovery { graph: g2, results: rs, ii, bi, layout: l }),
{
    lemma_extends_refl(g);
    assert(extends(g, g2));
    lemma_layout_frame(g, g2, rs, ii, l);
    assert(ii_sub(ii, ii));
    lemma_blocks_frame(g, g2, rs, ii, ii, bi);
    assert(rs.contains_key(fa) && bi.contains_key(fa));
    lemma_blocks_get(g, rs, ii, bi, fa);
    lemma_chain_has(g, rs[fa], ii, rs[fa].instructions@.len() as int, 0);
    assert(stored_ok(rs[fa], fa, tv.cap_blocks, tv.cap_budget));
    assert(ins_addr(rs[fa], 0) == fa);
    assert(all_succ_done(g2, rs, bi)) by {
        assert forall|k: u64| #![trigger rs.contains_key(k)] rs.contains_key(k) implies succ_done(g2, rs[k], bi, k, rs[k].successors@.len() as int) by {
            assert(succ_done(g, rs[k], bi, k, rs[k].successors@.len() as int));
        }
    }
}

// ---------------------------------------------------------------------------------------------
// non-vacuity of the precondition: `confined` holds e.g. for a translator that decodes nothing, a memory without
// bytes, no manual edges and U = {function address}
pub proof fn lemma_confined_satisfiable(o: Options, fa: u64)
    requires o.manual_edges@.len() == 0,
    ensures exists|tv: TrView, mv: MemView, u: Set<u64>| #[trigger] confined(tv, mv, o, fa, u),
{
    let tv = TrView { may_return: |bytes: Seq<u8>, a: u64, oo: Options, b: BlockTranslationResult| false, cap_blocks: 1, cap_budget: 0 };
    let mv = MemView { perm: |a: u64| None::<MemoryPermissions>, byte: |a: u64| None::<u8> };
    let u = set![fa];
    assert(u.len() == 1);
    assert(confined(tv, mv, o, fa, u));
}
