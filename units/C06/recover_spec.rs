// ======================================================================================
// units/C06/recover_spec.rs - specification vocabulary for function recovery
// (lib/translator/mod.rs :: TranslationMemory::get_bytes, Translator::translate_function_extended).
// Only spec fns and lemmas; the extracted functions are in recover.rs.
// ======================================================================================

// ---------------------------------------------------------------------------------------------
// the byte window handed to the decoder

/// the content of a TranslationMemory: the permission and the byte at every address
pub ghost struct MemView {
    pub perm: spec_fn(u64) -> Option<MemoryPermissions>,
    pub byte: spec_fn(u64) -> Option<u8>,
}

/// the permission of `a` includes EXECUTE
pub open spec fn exec_at(mv: MemView, a: u64) -> bool {
    (mv.perm)(a) matches Some(p) && p.has(MemoryPermissions::EXECUTE)
}

/// `bytes` is the window `get_bytes(a, length)` reads: the mapped bytes at a, a+1, ... up to `length` of them,
/// ending early only where the start address is not executable, a byte is unmapped, or the address space ends
pub open spec fn is_window(mv: MemView, a: u64, length: usize, bytes: Seq<u8>) -> bool {
    &&& bytes.len() <= length
    &&& a + bytes.len() <= u64::MAX + 1
    &&& forall|i: int| 0 <= i < bytes.len() ==> (mv.byte)((a + i) as u64) == Some(#[trigger] bytes[i])
    &&& (bytes.len() > 0 ==> exec_at(mv, a))
    &&& (bytes.len() < length ==> !exec_at(mv, a) || a + bytes.len() > u64::MAX || (mv.byte)((a + bytes.len()) as u64) is None)
}

// ---------------------------------------------------------------------------------------------
// block translation results

/// an instruction graph as a decoder must deliver it: well formed (unit C15), entry and exit set
pub open spec fn graph_ok(g: ControlFlowGraph) -> bool { g.cfg_wf() && g.entry is Some && g.exit is Some }

/// THE ASSUMED CONTRACT of `translate_block` (what an `Ok` result looks like); `address` = the address it was asked for:
/// the first listed instruction (if any) is the one at `address`; every instruction graph is well formed with entry and
/// exit set; the sizes stay within the translator's caps.  Nothing is assumed about the successors, the other
/// instruction addresses, `address()` / `length()` of the result, or about the list being non-empty (the recovery code
/// rejects an empty list itself).
pub open spec fn result_ok(b: BlockTranslationResult, address: u64, capb: nat, capi: nat) -> bool {
    &&& (b.instructions@.len() > 0 ==> b.instructions@[0].0 == address)
    &&& forall|i: int| 0 <= i < b.instructions@.len() ==> graph_ok((#[trigger] b.instructions@[i]).1)
    &&& total_blocks(b.instructions@) <= capb
    &&& total_budget(b.instructions@) <= capi
}

/// a result as it is STORED by the discovery loop: the contract + at least one instruction
pub open spec fn stored_ok(b: BlockTranslationResult, address: u64, capb: nat, capi: nat) -> bool {
    result_ok(b, address, capb, capi) && b.instructions@.len() > 0
}

/// the result the recovery code itself builds for an address without (executable) bytes: one empty block
pub open spec fn empty_result(b: BlockTranslationResult, address: u64) -> bool {
    &&& b.instructions@.len() == 1
    &&& b.instructions@[0].0 == address
    &&& graph_ok(b.instructions@[0].1)
    &&& b.instructions@[0].1.graph.vertices@.dom() =~= set![0usize]
    &&& b.instructions@[0].1.graph.vertices@[0].instructions@.len() == 0
    &&& b.instructions@[0].1.graph.vertices@[0].next_instruction_index == 0
    &&& b.instructions@[0].1.next_index == 1
    &&& b.instructions@[0].1.entry == Some(0usize)
    &&& b.instructions@[0].1.exit == Some(0usize)
    &&& b.successors@.len() == 0
}

pub proof fn lemma_empty_result_ok(b: BlockTranslationResult, address: u64, capb: nat, capi: nat)
    requires empty_result(b, address), capb >= 1,
    ensures stored_ok(b, address, capb, capi),
{
    let s = b.instructions@;
    assert(s.drop_last().len() == 0);
    assert(total_blocks(s) == total_blocks(s.drop_last()) + s.last().1.graph.vertices@.len());
    assert(total_budget(s) == total_budget(s.drop_last()) + s.last().1.instr_budget());
    assert(total_blocks(s.drop_last()) == 0);
    assert(total_budget(s.drop_last()) == 0);
    lemma_single_block_budget(s[0].1);
    assert(s[0].1.graph.vertices@.dom().len() == 1);
}

// ---------------------------------------------------------------------------------------------
// discovery: the work list

/// the i-th manual edge's endpoints
pub open spec fn me_head(o: Options, i: int) -> u64 { o.manual_edges@[i].head_address }
pub open spec fn me_tail(o: Options, i: int) -> u64 { o.manual_edges@[i].tail_address }
/// either endpoint (t = false: head, t = true: tail) - the form the quantified statements use
pub open spec fn me_end(o: Options, i: int, t: bool) -> u64 { if t { me_tail(o, i) } else { me_head(o, i) } }

/// address `a` has a result, is queued, or is the address being translated right now
#[verifier::opaque]
pub open spec fn covered(rs: Map<u64, BlockTranslationResult>, q: Seq<u64>, cur: Option<u64>, a: u64) -> bool {
    rs.contains_key(a) || q.contains(a) || cur == Some(a)
}

/// every address the function needs - its own address, the endpoints of the manual edges, the successors of
/// every result - is covered
pub open spec fn pending_inv(rs: Map<u64, BlockTranslationResult>, q: Seq<u64>, cur: Option<u64>, o: Options, fa: u64) -> bool {
    &&& covered(rs, q, cur, fa)
    &&& forall|i: int, t: bool| 0 <= i < o.manual_edges@.len() ==> covered(rs, q, cur, #[trigger] me_end(o, i, t))
    &&& forall|k: u64, i: int| rs.contains_key(k) && 0 <= i < rs[k].successors@.len() ==> covered(rs, q, cur, (#[trigger] rs[k].successors@[i]).0)
}

/// the results are closed: nothing is missing
pub open spec fn closed(rs: Map<u64, BlockTranslationResult>, o: Options, fa: u64) -> bool {
    &&& rs.contains_key(fa)
    &&& forall|i: int, t: bool| 0 <= i < o.manual_edges@.len() ==> rs.contains_key(#[trigger] me_end(o, i, t))
    &&& forall|k: u64, i: int| rs.contains_key(k) && 0 <= i < rs[k].successors@.len() ==> rs.contains_key((#[trigger] rs[k].successors@[i]).0)
}

pub proof fn lemma_pending_done(rs: Map<u64, BlockTranslationResult>, q: Seq<u64>, o: Options, fa: u64)
    requires pending_inv(rs, q, None, o, fa), q.len() == 0,
    ensures closed(rs, o, fa),
{
    reveal(covered);
    assert(covered(rs, q, None, fa));
    assert(rs.contains_key(fa));
    assert forall|i: int, t: bool| 0 <= i < o.manual_edges@.len() implies rs.contains_key(#[trigger] me_end(o, i, t)) by {
        assert(covered(rs, q, None, me_end(o, i, t)));
    }
    assert forall|k: u64, i: int| rs.contains_key(k) && 0 <= i < rs[k].successors@.len() implies rs.contains_key((#[trigger] rs[k].successors@[i]).0) by {
        assert(covered(rs, q, None, rs[k].successors@[i].0));
    }
}

/// one more manual edge has been enqueued (head, then tail)
pub proof fn lemma_enqueue_step(q: Seq<u64>, o: Options, n: int)
    requires
        0 <= n < o.manual_edges@.len(),
        forall|j: int, t: bool| 0 <= j < n ==> q.contains(#[trigger] me_end(o, j, t)),
    ensures
        forall|j: int, t: bool| 0 <= j < n + 1 ==> q.push(me_head(o, n)).push(me_tail(o, n)).contains(#[trigger] me_end(o, j, t)),
{
    let q1 = q.push(me_head(o, n));
    let q2 = q1.push(me_tail(o, n));
    lemma_q_push(q, me_head(o, n));
    lemma_q_push(q1, me_tail(o, n));
    assert forall|j: int, t: bool| 0 <= j < n + 1 implies q2.contains(#[trigger] me_end(o, j, t)) by {
        if j < n {
            assert(q.contains(me_end(o, j, t)));
            assert(q1.contains(me_end(o, j, t)));
            assert(q2.contains(me_end(o, j, t)));
        } else if t {
            assert(q2.contains(me_tail(o, n)));
        } else {
            assert(q1.contains(me_head(o, n)));
            assert(q2.contains(me_head(o, n)));
        }
    }
}

/// the start of the discovery: the queue holds the function address and all manual-edge endpoints, no results yet
pub proof fn lemma_pending_init(rs: Map<u64, BlockTranslationResult>, q: Seq<u64>, o: Options, fa: u64)
    requires
        rs == Map::<u64, BlockTranslationResult>::empty(), q.contains(fa),
        forall|j: int, t: bool| 0 <= j < o.manual_edges@.len() ==> q.contains(#[trigger] me_end(o, j, t)),
    ensures pending_inv(rs, q, None, o, fa),
{
    reveal(covered);
    assert forall|i: int, t: bool| 0 <= i < o.manual_edges@.len() implies covered(rs, q, None, #[trigger] me_end(o, i, t)) by {
        assert(q.contains(me_end(o, i, t)));
    }
}

/// q2 holds everything q holds
pub open spec fn q_sub(q: Seq<u64>, q2: Seq<u64>) -> bool { forall|a: u64| q.contains(a) ==> #[trigger] q2.contains(a) }

pub proof fn lemma_q_push(q: Seq<u64>, x: u64)
    ensures q_sub(q, q.push(x)), q.push(x).contains(x),
{
    assert forall|a: u64| q.contains(a) implies #[trigger] q.push(x).contains(a) by {
        let i = choose|i: int| 0 <= i < q.len() && q[i] == a;
        assert(q.push(x)[i] == a);
    }
    assert(q.push(x)[q.len() as int] == x);
}

pub proof fn lemma_q_push_front(q: Seq<u64>, x: u64)
    ensures q_sub(q, seq![x] + q), (seq![x] + q).contains(x),
{
    let q2 = seq![x] + q;
    assert forall|a: u64| q.contains(a) implies #[trigger] q2.contains(a) by {
        let i = choose|i: int| 0 <= i < q.len() && q[i] == a;
        assert(q2[i + 1] == a);
    }
    assert(q2[0] == x);
}

pub proof fn lemma_q_pop(q: Seq<u64>, a: u64)
    requires q.len() > 0, q.contains(a), a != q[0],
    ensures q.subrange(1, q.len() as int).contains(a),
{
    let i = choose|i: int| 0 <= i < q.len() && q[i] == a;
    assert(q.subrange(1, q.len() as int)[i - 1] == a);
}

/// popping the front: the popped address becomes the current one
pub proof fn lemma_covered_pop(rs: Map<u64, BlockTranslationResult>, q: Seq<u64>, a: u64)
    requires covered(rs, q, None, a), q.len() > 0,
    ensures covered(rs, q.subrange(1, q.len() as int), Some(q[0]), a),
{
    reveal(covered);
    if q.contains(a) && a != q[0] { lemma_q_pop(q, a); }
}

pub proof fn lemma_pending_pop(rs: Map<u64, BlockTranslationResult>, q: Seq<u64>, o: Options, fa: u64)
    requires pending_inv(rs, q, None, o, fa), q.len() > 0,
    ensures pending_inv(rs, q.subrange(1, q.len() as int), Some(q[0]), o, fa),
{
    let q2 = q.subrange(1, q.len() as int);
    let cur = Some(q[0]);
    lemma_covered_pop(rs, q, fa);
    assert forall|i: int, t: bool| 0 <= i < o.manual_edges@.len() implies covered(rs, q2, cur, #[trigger] me_end(o, i, t)) by {
        assert(covered(rs, q, None, me_end(o, i, t)));
        lemma_covered_pop(rs, q, me_end(o, i, t));
    }
    assert forall|k: u64, i: int| rs.contains_key(k) && 0 <= i < rs[k].successors@.len() implies covered(rs, q2, cur, (#[trigger] rs[k].successors@[i]).0) by {
        assert(covered(rs, q, None, rs[k].successors@[i].0));
        lemma_covered_pop(rs, q, rs[k].successors@[i].0);
    }
}

/// the current address already has a result: nothing to do
pub proof fn lemma_pending_skip(rs: Map<u64, BlockTranslationResult>, q: Seq<u64>, x: u64, o: Options, fa: u64)
    requires pending_inv(rs, q, Some(x), o, fa), rs.contains_key(x),
    ensures pending_inv(rs, q, None, o, fa),
{
    reveal(covered);
    assert(covered(rs, q, None, fa));
    assert forall|i: int, t: bool| 0 <= i < o.manual_edges@.len() implies covered(rs, q, None, #[trigger] me_end(o, i, t)) by {
        assert(covered(rs, q, Some(x), me_end(o, i, t)));
        assert(covered(rs, q, None, me_end(o, i, t)));
    }
    assert forall|k: u64, i: int| rs.contains_key(k) && 0 <= i < rs[k].successors@.len() implies covered(rs, q, None, (#[trigger] rs[k].successors@[i]).0) by {
        assert(covered(rs, q, Some(x), rs[k].successors@[i].0));
    }
}

/// covered survives the insertion of a result for the current address and a growing queue
pub proof fn lemma_covered_insert(rs: Map<u64, BlockTranslationResult>, q: Seq<u64>, q2: Seq<u64>, x: u64, b: BlockTranslationResult, a: u64)
    requires covered(rs, q, Some(x), a), q_sub(q, q2),
    ensures covered(rs.insert(x, b), q2, None, a),
{
    reveal(covered);
    if q.contains(a) { assert(q2.contains(a)); }
}

/// the current address got the result `b`, all of whose successors are queued (or have results)
pub proof fn lemma_pending_insert(rs: Map<u64, BlockTranslationResult>, q: Seq<u64>, q2: Seq<u64>, x: u64, b: BlockTranslationResult, o: Options, fa: u64)
    requires
        pending_inv(rs, q, Some(x), o, fa), q_sub(q, q2),
        forall|i: int| 0 <= i < b.successors@.len() ==> q2.contains((#[trigger] b.successors@[i]).0),
    ensures pending_inv(rs.insert(x, b), q2, None, o, fa),
{
    let rs2 = rs.insert(x, b);
    lemma_covered_insert(rs, q, q2, x, b, fa);
    assert forall|i: int, t: bool| 0 <= i < o.manual_edges@.len() implies covered(rs2, q2, None, #[trigger] me_end(o, i, t)) by {
        assert(covered(rs, q, Some(x), me_end(o, i, t)));
        lemma_covered_insert(rs, q, q2, x, b, me_end(o, i, t));
    }
    assert forall|k: u64, i: int| rs2.contains_key(k) && 0 <= i < rs2[k].successors@.len() implies covered(rs2, q2, None, (#[trigger] rs2[k].successors@[i]).0) by {
        if k != x {
            assert(rs.contains_key(k) && rs2[k] == rs[k]);
            assert(covered(rs, q, Some(x), rs[k].successors@[i].0));
            lemma_covered_insert(rs, q, q2, x, b, rs[k].successors@[i].0);
        } else {
            assert(rs2[k] == b);
            assert(q2.contains(b.successors@[i].0));
            assert(covered(rs2, q2, None, b.successors@[i].0)) by { reveal(covered); }
        }
    }
}

// ---------------------------------------------------------------------------------------------
// the resource bound / the finite address universe of the discovery

/// every stored result satisfies the contract (for the address it is stored under)
pub open spec fn results_ok(rs: Map<u64, BlockTranslationResult>, capb: nat, capi: nat) -> bool {
    forall|k: u64| rs.contains_key(k) ==> stored_ok(#[trigger] rs[k], k, capb, capi)
}

pub open spec fn all_in(q: Seq<u64>, u: Set<u64>) -> bool { forall|i: int| 0 <= i < q.len() ==> u.contains(#[trigger] q[i]) }

pub proof fn lemma_dom_grows(rs: Map<u64, BlockTranslationResult>, x: u64, b: BlockTranslationResult, u: Set<u64>)
    requires u.finite(), rs.dom().subset_of(u), u.contains(x), !rs.contains_key(x),
    ensures rs.insert(x, b).dom().subset_of(u), rs.dom().finite(), rs.dom().len() < u.len(), rs.insert(x, b).dom().len() == rs.dom().len() + 1,
        rs.insert(x, b).dom().len() <= u.len(),
{
    vstd::set_lib::lemma_len_subset(rs.dom(), u);
    vstd::set_lib::lemma_len_subset(rs.insert(x, b).dom(), u);
    assert(rs.insert(x, b).dom() =~= rs.dom().insert(x));
}

/// what is assumed to be known about a Translator: the results `translate_block` may deliver for a window (a relation),
/// and upper bounds on the number of IL blocks / on the instruction budget of ONE block translation result
pub ghost struct TrView {
    pub may_return: spec_fn(Seq<u8>, u64, Options, BlockTranslationResult) -> bool,
    pub cap_blocks: nat,
    pub cap_budget: nat,
}

/// THE RESOURCE ASSUMPTION of translate_function_extended: the discovery stays inside a finite set `u` of addresses
/// (it holds the function address and the endpoints of the manual edges and is closed under the successors of
/// whatever `translate_block` may return for the window at an address of `u`), small enough that the block indices
/// and instruction counters of the assembled graph fit a usize.
pub open spec fn confined(tv: TrView, mv: MemView, o: Options, fa: u64, u: Set<u64>) -> bool {
    &&& u.finite()
    &&& u.contains(fa)
    &&& forall|i: int, t: bool| 0 <= i < o.manual_edges@.len() ==> u.contains(#[trigger] me_end(o, i, t))
    &&& forall|a: u64, bytes: Seq<u8>, b: BlockTranslationResult, i: int|
            u.contains(a) && is_window(mv, a, DEFAULT_TRANSLATION_BLOCK_BYTES, bytes) && #[trigger] (tv.may_return)(bytes, a, o, b)
            && 0 <= i < b.successors@.len() ==> u.contains((#[trigger] b.successors@[i]).0)
    &&& tv.cap_blocks >= 1
    &&& u.len() * tv.cap_blocks <= usize::MAX
    &&& u.len() * tv.cap_budget <= usize::MAX
}

/// an `unconditional_edge(h, t)` / `conditional_edge(h, t, _)` call on `g` returns Ok (exact condition, unit C15's edge_insert_spec)
pub open spec fn edge_call_ok(g: ControlFlowGraph, h: usize, t: usize) -> bool {
    !g.has_edge(h, t) && g.has_block(h) && g.has_block(t)
}

/// what `Options::default()` returns: no manual edges, unsupported instructions are errors
pub open spec fn default_options(o: Options) -> bool { o.manual_edges@ == Seq::<ManualEdge>::empty() && !o.unsupported_are_intrinsics }
