// ---- units/C06/options.rs: translator::{ManualEdge, Options} (lib/translator/options.rs), extracted.
//@ source lib/translator/options.rs
//@ item struct ManualEdge
//@ item struct Options

impl ManualEdge {
//@ fn impl ManualEdge :: fn new
//@ spec
    ensures /*@ctor*/ r.head_address == head_address && r.tail_address == tail_address && r.condition == condition,
//@ end
//@ fn impl ManualEdge :: fn head_address
//@ spec
    ensures /*@field*/ r == self.head_address,
//@ end
//@ fn impl ManualEdge :: fn tail_address
//@ spec
    ensures /*@field*/ r == self.tail_address,
//@ end
//@ fn impl ManualEdge :: fn condition
//@ spec
    ensures
        /*@some*/ (r is Some) == (self.condition is Some),
        /*@value*/ r matches Some(c) ==> *c == self.condition->0,
//@ end
}

// derive(Default) of Options re-supplied: ASSUMED "derive = field-wise default" (empty Vec, false)
impl Default for Options {
    #[verifier::external_body]
    fn default() -> (r: Options)
        ensures r.manual_edges@ == Seq::<ManualEdge>::empty() && !r.unsupported_are_intrinsics,
    { Options { manual_edges: Vec::new(), unsupported_are_intrinsics: false } }
}

impl Options {
//@ fn impl Options :: fn new
//@ spec
    ensures /*@empty*/ r.manual_edges@ == Seq::<ManualEdge>::empty() && !r.unsupported_are_intrinsics,
//@ end
//@ fn impl Options :: fn unsupported_are_intrinsics
//@ spec
    ensures /*@field*/ r == self.unsupported_are_intrinsics,
//@ end
//@ fn impl Options :: fn add_manual_edge
//@ spec
    ensures
        /*@pushed*/ final(self).manual_edges@ == old(self).manual_edges@.push(manual_edge),
        /*@frame*/ final(self).unsupported_are_intrinsics == old(self).unsupported_are_intrinsics,
//@ end
//@ fn impl Options :: fn manual_edges
//@ spec
    ensures /*@field*/ r@ == self.manual_edges@,
//@ end
}
