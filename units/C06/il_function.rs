// ---- units/C06/il_function.rs: il::Function::new (lib/il/function.rs), extracted; included inside `pub mod il`.
impl Function {
//@ source lib/il/function.rs
//@ fn impl Function :: fn new
//@ spec
    ensures /*@ctor*/ r.address == address && r.control_flow_graph == control_flow_graph && r.name is None && r.index is None,
//@ end
}
