// ---- units/C06/il_extra.rs: il operations function recovery uses that unit C15 does not put under contract:
// il::Function::new, il::ControlFlowGraph::edge_mut, il::Edge::condition_mut; `==` on il::Expression.
// Included inside `pub mod il`.
impl Function {
//@ source lib/il/function.rs
//@ fn impl Function :: fn new
//@ spec
    ensures /*@ctor*/ r.address == address && r.control_flow_graph == control_flow_graph && r.name is None && r.index is None,
//@ end
}

// derive(PartialEq) of il::Expression re-supplied WITHOUT a contract: the recovery code only uses `!=` on two guards to
// avoid building `c | c`; nothing is claimed about its result.
impl vstd::std_specs::cmp::PartialEqSpecImpl for Expression {
    open spec fn obeys_eq_spec() -> bool { false }
    open spec fn eq_spec(&self, other: &Expression) -> bool { arbitrary() }
}
impl PartialEq for Expression {
    #[verifier::external_body]
    fn eq(&self, other: &Expression) -> bool { unimplemented!() }
}

impl Edge {
//@ source lib/il/edge.rs
//@ fn impl Edge :: fn condition_mut
//@ spec
    ensures
        /*@none*/ old(self).condition is None ==> r is None && *final(self) == *old(self),
        /*@some*/ old(self).condition matches Some(c0) ==> (r matches Some(c) && *c == c0
            && *final(self) == (Edge { condition: Some(*final(c)), ..*old(self) })),
//@ end
}

impl ControlFlowGraph {
//@ source lib/il/control_flow_graph.rs
// edge_mut hands out `&mut Edge`: cfg_wf afterwards depends on what the caller stores (the final edge must keep its
// head and tail) - stated as the /*@wf*/ implication, like unit C15's block_mut.
//@ fn impl ControlFlowGraph :: fn edge_mut
//@ spec
    ensures
        /*@found*/ old(self).has_edge(head, tail) ==> (r matches Ok(e) && *e == old(self).graph.edges@[(head, tail)]
            && final(self).graph.edges@ == old(self).graph.edges@.insert((head, tail), *final(e))),
        /*@missing*/ !old(self).has_edge(head, tail) ==> (r matches Err(e) && e == Error::GraphEdgeNotFound(head, tail)) && final(self).graph.edges@ == old(self).graph.edges@,
        /*@frame*/ final(self).graph.vertices == old(self).graph.vertices && final(self).graph.successors == old(self).graph.successors
            && final(self).graph.predecessors == old(self).graph.predecessors && final(self).same_scalars(*old(self)),
        /*@wf*/ old(self).cfg_wf() ==> (r matches Ok(e) ==> (final(e).head == head && final(e).tail == tail ==> final(self).cfg_wf())),
        /*@wf_missing*/ old(self).cfg_wf() && r is Err ==> final(self).cfg_wf(),
//@ end
}
