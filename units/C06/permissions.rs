// ---- units/C06/permissions.rs: memory::MemoryPermissions.
// Stand-in for the type the `bitflags!` macro (bitflags 1.x, third party) generates in lib/memory/mod.rs:
//     pub struct MemoryPermissions: u32 { NONE = 0b000; READ = 0b001; WRITE = 0b010; EXECUTE = 0b100; ALL = 0b111 }
// i.e. `pub struct MemoryPermissions { bits: u32 }` deriving Copy / Clone / PartialEq / ..., one associated const
// per flag and (among others) `contains`.  bitflags documents `a.contains(b)` as "all flags of b are set in a",
// implemented as `(self.bits & other.bits) == other.bits`.  ASSUMED (third party), same stand-in as units C16 / C07
// plus the one flag and the one operation TranslationMemory::get_bytes uses.
#[derive(Clone, Copy)]
pub struct MemoryPermissions { pub bits: u32 }

impl MemoryPermissions {
    pub const EXECUTE: MemoryPermissions = MemoryPermissions { bits: 4 };

    pub open spec fn has(self, other: MemoryPermissions) -> bool { (self.bits & other.bits) == other.bits }

    #[verifier::external_body]
    pub fn contains(&self, other: MemoryPermissions) -> (r: bool)
        ensures r == self.has(other),
    { (self.bits & other.bits) == other.bits }
}
