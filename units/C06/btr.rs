// ---- units/C06/btr.rs: translator::BlockTranslationResult constructor + accessors
// (lib/translator/block_translation_result.rs; the struct itself comes with units/C15/blockify.rs).
impl BlockTranslationResult {
//@ source lib/translator/block_translation_result.rs
//@ fn impl BlockTranslationResult :: fn new
//@ spec
    ensures /*@ctor*/ r.instructions == instructions && r.address == address && r.length == length && r.successors == successors,
//@ end
//@ fn impl BlockTranslationResult :: fn instructions
//@ spec
    ensures /*@field*/ *r == self.instructions,
//@ end
//@ fn impl BlockTranslationResult :: fn address
//@ spec
    ensures /*@field*/ r == self.address,
//@ end
//@ fn impl BlockTranslationResult :: fn length
//@ spec
    ensures /*@field*/ r == self.length,
//@ end
//@ fn impl BlockTranslationResult :: fn successors
//@ spec
    ensures /*@field*/ *r == self.successors,
//@ end
}
