// ======================================================================================
// units/C06/recover.rs - lib/translator/mod.rs: the traits TranslationMemory and Translator, RESTATED with
// contracts on their required methods, and their DEFAULT methods get_bytes / translate_function /
// translate_function_extended extracted from the repository (the code under proof).
// ======================================================================================
//@ source lib/translator/mod.rs
//@ item const DEFAULT_TRANSLATION_BLOCK_BYTES

// lib/translator/mod.rs:  `trait TranslationMemory { fn permissions(&self, address: u64) -> Option<MemoryPermissions>;
//                                                    fn get_u8(&self, address: u64) -> Option<u8>;  fn get_bytes(..) {default} }`
// RESTATED: a memory has a byte view and a permission view and the two required methods read them (the same
// restatement as units C16 / C07, without a data invariant: the recovery code works for every implementor).
pub trait TranslationMemory {
    /// the content of the memory: permission and byte at every address (see recover_spec.rs :: MemView)
    spec fn tm_view(&self) -> MemView;

    fn permissions(&self, address: u64) -> (r: Option<MemoryPermissions>)
        ensures r == (self.tm_view().perm)(address);

    fn get_u8(&self, address: u64) -> (r: Option<u8>)
        ensures r == (self.tm_view().byte)(address);

//@ fn trait TranslationMemory :: fn get_bytes nopub loops=1
//@ spec
    ensures /*@window*/ is_window(self.tm_view(), address, length, r@),
//@ loop 0
    invariant_except_break
        bytes@.len() == i,
    invariant
        bytes@.len() <= length,
        address + bytes@.len() <= u64::MAX + 1,
        forall|j: int| 0 <= j < bytes@.len() ==> (self.tm_view().byte)((address + j) as u64) == Some(#[trigger] bytes@[j]),
        bytes@.len() > 0 ==> exec_at(self.tm_view(), address),
    ensures
        bytes@.len() < length ==> !exec_at(self.tm_view(), address) || address + bytes@.len() > u64::MAX || (self.tm_view().byte)((address + bytes@.len()) as u64) is None,
//@ end
}

// lib/translator/mod.rs:  `trait Translator { fn translate_block(&self, bytes: &[u8], address: u64, options: &Options)
//     -> Result<BlockTranslationResult, Error>;  fn translate_function(..) {default}  fn translate_function_extended(..) {default} }`
// RESTATED.  `translate_block` is implemented by the architecture lifters (capstone / bad64 behind FFI): it is NOT
// verified, its contract below is the ONE ASSUMPTION of this unit about decoders.
pub trait Translator {
    /// what is assumed to be known about the decoder (see recover_spec.rs :: TrView): the relation `may_return`
    /// (the results `translate_block` may deliver for a window; nothing is assumed about determinism) and upper
    /// bounds on the number of IL blocks / on the instruction budget of ONE block translation result
    spec fn tr_view(&self) -> TrView;

    fn translate_block(&self, bytes: &[u8], address: u64, options: &Options) -> (r: Result<BlockTranslationResult, Error>)
        requires 0 < bytes@.len() <= DEFAULT_TRANSLATION_BLOCK_BYTES,
        ensures r matches Ok(b) ==> (self.tr_view().may_return)(bytes@, address, *options, b)
            && result_ok(b, address, self.tr_view().cap_blocks, self.tr_view().cap_budget);

//@ fn trait Translator :: fn translate_function nopub
//@ spec
    requires
        forall|o: Options| #![trigger o.manual_edges@] default_options(o) ==> exists|u: Set<u64>| #[trigger] confined(self.tr_view(), memory.tm_view(), o, function_address, u),
    ensures
        /*@lifted*/ r matches Ok(f) ==> exists|o: Options| default_options(o) && #[trigger] lifted_ok(self.tr_view(), memory.tm_view(), o, function_address, f),
//@ end

//@ fn trait Translator :: fn translate_function_extended nopub loops=8
//@ rewrite 1 `options.manual_edges().iter().for_each(|manual_edge| {` => `for manual_edge in vf_it0: options.manual_edges().iter() {` ## R-for-each: `ITER.for_each(|x| { BODY })` is by definition `for x in ITER { BODY }` (ITER and BODY stay the original tokens; the ghost iterator is named)
//@ rewrite 1 `translation_queue.push_back(manual_edge.tail_address()); });` => `translation_queue.push_back(manual_edge.tail_address()); }` ## R-for-each: closes the loop of the rewritten for_each
//@ rewrite 1 `for successor in block_translation_result.successors().iter() {` => `for successor in vf_it2: block_translation_result.successors().iter() {` ## R-ghost-iter-name: names the ghost iterator of the for loop so that invariants can mention it; no executable change
//@ rewrite 1 `for result in &translation_results {` => `for result in vf_it3: &translation_results {` ## R-ghost-iter-name: names the ghost iterator of the for loop; no executable change
//@ rewrite 1 `for &(address, ref instruction_graph) in block_translation_result.instructions().iter() {` => `for vf_p in vf_it4: block_translation_result.instructions().iter() { let address = vf_p.0; let instruction_graph = &vf_p.1;` ## R-ref-pattern: the pattern `&(a, ref g)` on an item `p: &(u64, ControlFlowGraph)` binds a = p.0 (a copy) and g = &p.1; Verus has no `ref` patterns, the two bindings are spelled out (the ghost iterator is named)
//@ rewrite 1 `if let std::collections::btree_map::Entry::Vacant(e) = instruction_indices.entry(address)` => `if !instruction_indices.contains_key(&address)` ## R-entry-vacant: `if let Entry::Vacant(e) = M.entry(K) { A; e.insert(V); B } else { C }`, where A, B, C do not touch M through another path, is `if !M.contains_key(&K) { A; M.insert(K, V); B } else { C }` (std: `entry` yields Vacant exactly when the key is absent, `VacantEntry::insert` stores the value under the entry's key); part 1 of 2. vstd has no specification of the Entry API.
//@ rewrite 1 `e.insert(` => `instruction_indices.insert(address, ` ## R-entry-vacant: part 2 of 2 (the value expression stays the original tokens)
//@ rewrite 1 `for manual_edge in options.manual_edges() {` => `let vf_me = options.manual_edges(); let mut vf_mi: usize = 0; while vf_mi < vf_me.len() { let manual_edge = &vf_me[vf_mi]; vf_mi += 1;` ## R-for-to-while: `for x in SLICE { BODY }` is the index loop that binds x to the elements in order; the index is advanced before BODY so that `continue` proceeds to the next element exactly as in the for loop (Verus: "for-loops do not yet support continue")
//@ rewrite 1 `for (address, block_translation_result) in translation_results {` => `for (vf_a, block_translation_result) in vf_it6: translation_results.iter() { let address = *vf_a;` ## R-into-iter-dead-map: by-value iteration of a BTreeMap that is not used afterwards visits the same (key, value) pairs in the same (ascending key) order as `.iter()`; the key is copied out (u64), the value is only read through `&self` methods. vstd has no specification of btree_map::IntoIter.
//@ rewrite 1 `for (successor_address, successor_condition) in block_translation_result.successors().iter() {` => `let vf_ss = block_translation_result.successors(); let mut vf_si: usize = 0; while vf_si < vf_ss.len() { let successor_address = &vf_ss[vf_si].0; let successor_condition = &vf_ss[vf_si].1; vf_si += 1;` ## R-for-to-while: as above, for the slice iterator of a Vec of pairs; the tuple pattern `(a, c)` on an item `p: &(u64, Option<Expression>)` binds a = &p.0, c = &p.1 (default binding modes)
//@ spec
    requires
        exists|u: Set<u64>| #[trigger] confined(self.tr_view(), memory.tm_view(), *options, function_address, u),
    ensures
        /*@wf*/ r matches Ok(f) ==> f.function_wf(),
        /*@address*/ r matches Ok(f) ==> f.address == function_address && f.name is None && f.index is None,
        /*@entry*/ r matches Ok(f) ==> (f.control_flow_graph.entry matches Some(e) && f.control_flow_graph.graph.vertices@.contains_key(e)),
        /*@recovered*/ r matches Ok(f) ==> exists|w: Recovery| #[trigger] recovered(self.tr_view(), memory.tm_view(), *options, function_address, w) && merged_from(f.control_flow_graph, w.graph),
        /*@lifted*/ r matches Ok(f) ==> lifted_ok(self.tr_view(), memory.tm_view(), *options, function_address, f),
//@ enter
    // keep the per-block instruction-index quantifiers of unit C15's block_wf out of this function's queries (a failing
    // proof must fail fast); the one place that needs the definition reveals it locally
    hide(Block::block_wf);
    let ghost u = choose|u: Set<u64>| #[trigger] confined(self.tr_view(), memory.tm_view(), *options, function_address, u);
    let ghost tv = self.tr_view();
    let ghost mv = memory.tm_view();
    let ghost capb = tv.cap_blocks;
    let ghost capi = tv.cap_budget;
    let ghost opt = *options;
//@ loop 0
    invariant
        opt == *options, tv == self.tr_view(), mv == memory.tm_view(),
        confined(tv, mv, opt, function_address, u),
        vf_it0.seq().len() == opt.manual_edges@.len(),
        forall|j: int| 0 <= j < vf_it0.seq().len() ==> *(#[trigger] vf_it0.seq()[j]) == opt.manual_edges@[j],
        translation_queue@.len() > 0 && translation_queue@[0] == function_address,
        all_in(translation_queue@, u),
        forall|j: int, t: bool| 0 <= j < vf_it0.index@ ==> translation_queue@.contains(#[trigger] me_end(opt, j, t)),
//@ before 0 `translation_queue.push_back(manual_edge.head_address());`
    let ghost q0 = translation_queue@;
    proof {
        assert(*manual_edge == opt.manual_edges@[vf_it0.index@ as int]);
        assert(u.contains(me_end(opt, vf_it0.index@ as int, false)));
        assert(u.contains(me_end(opt, vf_it0.index@ as int, true)));
        assert(manual_edge.head_address == me_head(opt, vf_it0.index@ as int) && manual_edge.tail_address == me_tail(opt, vf_it0.index@ as int));
        lemma_enqueue_step(q0, opt, vf_it0.index@ as int);
    }
//@ before 0 `while !translation_queue.is_empty()`
    proof {
        assert(translation_queue@.contains(function_address));
        lemma_pending_init(translation_results@, translation_queue@, opt, function_address);
    }
//@ loop 1
    invariant
        opt == *options, tv == self.tr_view(), mv == memory.tm_view(), capb == tv.cap_blocks, capi == tv.cap_budget,
        confined(tv, mv, opt, function_address, u),
        results_ok(translation_results@, capb, capi),
        origins_ok(tv, mv, opt, translation_results@),
        translation_results@.dom().subset_of(u),
        all_in(translation_queue@, u),
        pending_inv(translation_results@, translation_queue@, None, opt, function_address),
    decreases u.len() - translation_results@.dom().len(), translation_queue@.len(),
//@ before 0 `let block_address = translation_queue.pop_front().unwrap();`
    let ghost q_pre = translation_queue@;
    let ghost rs0 = translation_results@;
//@ after 0 `let block_address = translation_queue.pop_front().unwrap();`
    let ghost q1 = translation_queue@;
    proof {
        lemma_pending_pop(rs0, q_pre, opt, function_address);
        assert(block_address == q_pre[0] && u.contains(q_pre[0]));
        assert forall|i: int| 0 <= i < q1.len() implies u.contains(#[trigger] q1[i]) by { assert(q1[i] == q_pre[i + 1]); }
    }
//@ before 0 `control_flow_graph.set_entry(block_index)?;`
    proof {
        // the fresh empty block is well formed (the only use of block_wf's definition in this function)
        assert(control_flow_graph.graph.vertices@[block_index].block_wf()) by { reveal(Block::block_wf); }
    }
//@ before 0 `continue;`
    proof { lemma_pending_skip(rs0, q1, block_address, opt, function_address); }
//@ before 1 `continue;`
    proof {
        let b = translation_results@[block_address];
        assert(empty_result(b, block_address)) by {
            assert(b.instructions@[0] == (block_address, control_flow_graph));
        }
        lemma_empty_result_ok(b, block_address, capb, capi);
        assert(translation_results@ == rs0.insert(block_address, b));
        assert(q_sub(q1, q1));
        lemma_pending_insert(rs0, q1, q1, block_address, b, opt, function_address);
        lemma_dom_grows(rs0, block_address, b, u);
        assert(is_window(mv, block_address, DEFAULT_TRANSLATION_BLOCK_BYTES, block_bytes@));
        lemma_origins_insert(tv, mv, opt, rs0, block_address, b);
    }
//@ before 0 `for successor in vf_it2`
    let ghost ss = block_translation_result.successors@;
    proof { assert(q_sub(q1, q1)); }
//@ loop 2
    invariant
        vf_it2.seq().len() == ss.len(),
        forall|j: int| 0 <= j < ss.len() ==> *(#[trigger] vf_it2.seq()[j]) == ss[j],
        forall|j: int| 0 <= j < ss.len() ==> u.contains((#[trigger] ss[j]).0),
        all_in(translation_queue@, u),
        q_sub(q1, translation_queue@),
        forall|j: int| 0 <= j < vf_it2.index@ ==> translation_queue@.contains((#[trigger] ss[j]).0),
//@ before 0 `if !translation_queue.contains(&successor.0) {`
    let ghost q2 = translation_queue@;
    proof {
        assert(*successor == ss[vf_it2.index@ as int]);
        // whichever end of the queue the successor is pushed to
        lemma_q_push(q2, successor.0);
        lemma_q_push_front(q2, successor.0);
    }
//@ after 0 `translation_results.insert(block_address, block_translation_result);`
    proof {
        assert(translation_results@ == rs0.insert(block_address, block_translation_result));
        lemma_pending_insert(rs0, q1, translation_queue@, block_address, block_translation_result, opt, function_address);
        lemma_dom_grows(rs0, block_address, block_translation_result, u);
        assert(is_window(mv, block_address, DEFAULT_TRANSLATION_BLOCK_BYTES, block_bytes@));
        lemma_origins_insert(tv, mv, opt, rs0, block_address, block_translation_result);
    }
//@ before 0 `let mut instruction_indices`
    let ghost rs = translation_results@;
    proof {
        lemma_pending_done(rs, translation_queue@, opt, function_address);
        vstd::set_lib::lemma_len_subset(rs.dom(), u);
        if rs.dom().len() == 0 { rs.dom().lemma_len0_is_empty(); assert(rs.dom().contains(function_address)); }
    }
//@ before 0 `for result in vf_it3`
    let ghost mut lay = Layout { src: Map::empty(), ren: Map::empty(), base: Map::empty() };
    proof {
        lemma_layout_empty(control_flow_graph, rs);
        lemma_budget_empty(control_flow_graph.graph.vertices@, 0);
    }
//@ loop 3
    invariant
        opt == *options, tv == self.tr_view(), mv == memory.tm_view(), capb == tv.cap_blocks, capi == tv.cap_budget,
        rs == translation_results@, closed(rs, opt, function_address), results_ok(rs, capb, capi), origins_ok(tv, mv, opt, rs),
        u.finite(), rs.dom().len() <= u.len(), u.len() * capb <= usize::MAX, u.len() * capi <= usize::MAX,
        graph::seq_lists_map(vf_it3.seq(), rs),
        control_flow_graph.cfg_wf(),
        layout_inv(control_flow_graph, rs, instruction_indices@, lay),
        blocks_done(control_flow_graph, rs, instruction_indices@, block_indices@),
        forall|i: int| 0 <= i < vf_it3.index@ ==> block_indices@.contains_key(*(#[trigger] vf_it3.seq()[i]).0),
        rs.dom().len() > 0,
        vf_it3.index@ == vf_it3.seq().len() ==> keyed(rs, block_indices@) && control_flow_graph.instr_budget() <= usize::MAX,
        control_flow_graph.next_index <= vf_it3.index@ * capb,
        control_flow_graph.instr_budget() <= vf_it3.index@ * capi,
//@ before 0 `let block_translation_result = result.1;`
    let ghost idx = vf_it3.index@ as nat;
    let ghost key = *result.0;
    let ghost b = *result.1;
    let ghost bi0 = block_indices@;
    proof {
        assert(rs.contains_pair(*vf_it3.seq()[idx as int].0, *vf_it3.seq()[idx as int].1));
        assert(rs.contains_key(key) && rs[key] == b);
        assert(stored_ok(b, key, capb, capi));
        lemma_cap_step(idx, rs.dom().len(), u.len(), capb);
        lemma_cap_step(idx, rs.dom().len(), u.len(), capi);
        assert(b.instructions@.take(0) =~= Seq::<(u64, ControlFlowGraph)>::empty());
        lemma_chain_start(control_flow_graph, b, instruction_indices@);
    }
//@ loop 4
    invariant
        rs.contains_key(key), rs[key] == b, *block_translation_result == b, stored_ok(b, key, capb, capi),
        (idx + 1) * capb == idx * capb + capb, (idx + 1) * capb <= usize::MAX,
        (idx + 1) * capi == idx * capi + capi, (idx + 1) * capi <= usize::MAX,
        vf_it4.seq().len() == b.instructions@.len(),
        forall|j: int| 0 <= j < vf_it4.seq().len() ==> *(#[trigger] vf_it4.seq()[j]) == b.instructions@[j],
        control_flow_graph.cfg_wf(),
        layout_inv(control_flow_graph, rs, instruction_indices@, lay),
        blocks_done(control_flow_graph, rs, instruction_indices@, bi0),
        block_indices@ == bi0,
        chain_upto(control_flow_graph, b, instruction_indices@, vf_it4.index@ as int),
        vf_it4.index@ == 0 ==> previous_exit is None,
        vf_it4.index@ > 0 ==> previous_exit == Some(block_exit)
            && instruction_indices@.contains_key(ins_addr(b, 0)) && instruction_indices@.contains_key(ins_addr(b, vf_it4.index@ - 1))
            && block_entry == instruction_indices@[ins_addr(b, 0)].0
            && block_exit == instruction_indices@[ins_addr(b, vf_it4.index@ - 1)].1,
        control_flow_graph.next_index <= idx * capb + total_blocks(b.instructions@.take(vf_it4.index@ as int)),
        control_flow_graph.instr_budget() <= idx * capi + total_budget(b.instructions@.take(vf_it4.index@ as int)),
//@ before 0 `let (entry, exit) = if !instruction_indices.contains_key(&address)`
    let ghost j = vf_it4.index@ as int;
    let ghost g0 = control_flow_graph;
    let ghost ii0 = instruction_indices@;
    let ghost lay0 = lay;
    proof {
        assert(*vf_p == b.instructions@[j]);
        assert(address == ins_addr(b, j) && *instruction_graph == b.instructions@[j].1);
        assert(graph_ok(b.instructions@[j].1));
        assert(rs[key].instructions@[j] == (address, *instruction_graph));
        assert(listed(rs, address, *instruction_graph));
        lemma_totals_step(b.instructions@, j);
        lemma_totals_mono(b.instructions@, j + 1);
        lemma_extends_refl(g0);
        if j > 0 {
            lemma_chain_has(g0, b, ii0, j, 0);
            lemma_chain_has(g0, b, ii0, j, j - 1);
        }
    }
//@ after 0 `let (entry, exit) = control_flow_graph.insert(instruction_graph)?;`
    proof {
        // the address gets the indices (copy of the entry, copy of the exit) of the instruction graph just inserted;
        // stated for the map the NEXT statement has to produce
        let (m, minv) = choose|m: Map<usize, usize>, minv: Map<usize, usize>| #[trigger] control_flow_graph.inserted_with(g0, *instruction_graph, m, minv)
            && (entry, exit) == (m[instruction_graph.entry->0], m[instruction_graph.exit->0]);
        let ii_new = ii0.insert(address, (entry, exit));
        lemma_layout_insert(g0, control_flow_graph, *instruction_graph, m, minv, rs, ii0, lay0, address);
        lay = layout_insert(lay0, address, *instruction_graph, m, g0.next_index);
        assert(ii_sub(ii0, ii_new));
        lemma_chain_frame(g0, control_flow_graph, b, ii0, ii_new, j);
        lemma_blocks_frame(g0, control_flow_graph, rs, ii0, ii_new, bi0);
    }
//@ before 0 `if let Some(previous_exit) = previous_exit {`
    let ghost g1 = control_flow_graph;
    let ghost ii1 = instruction_indices@;
    proof {
        assert(ii1.contains_key(address) && ii1[address] == (entry, exit));
        lemma_layout_blocks(g1, rs, ii1, lay, address);
        if j > 0 {
            lemma_chain_has(g1, b, ii1, j, j - 1);
            lemma_layout_blocks(g1, rs, ii1, lay, ins_addr(b, j - 1));
        }
        assert(ii_sub(ii1, ii1));
    }
//@ before 0 `control_flow_graph.unconditional_edge(previous_exit, entry)?;`
    proof {
        // this call cannot fail: both blocks exist and the edge is new
        assert(edge_call_ok(control_flow_graph, previous_exit, entry));
    }
//@ after 0 `control_flow_graph.unconditional_edge(previous_exit, entry)?;`
    proof {
        lemma_edge_extends(g1, control_flow_graph, Edge { head: previous_exit, tail: entry, condition: None, comment: None });
        lemma_layout_frame(g1, control_flow_graph, rs, ii1, lay);
        lemma_chain_frame(g1, control_flow_graph, b, ii1, ii1, j);
        lemma_blocks_frame(g1, control_flow_graph, rs, ii1, ii1, bi0);
    }
//@ after 0 `else { block_entry = entry; }`
    proof {
        lemma_chain_step(control_flow_graph, b, ii1, j);
    }
//@ before 0 `block_indices.insert(*result.0, (block_entry, block_exit));`
    proof {
        assert(b.instructions@.take(b.instructions@.len() as int) =~= b.instructions@);
    }
//@ after 0 `block_indices.insert(*result.0, (block_entry, block_exit));`
    proof {
        lemma_blocks_insert(control_flow_graph, rs, instruction_indices@, bi0, key, (block_entry, block_exit));
        assert(block_indices@ == bi0.insert(key, (block_entry, block_exit)));
        assert forall|i: int| 0 <= i < idx + 1 implies block_indices@.contains_key(*(#[trigger] vf_it3.seq()[i]).0) by {
            if i < idx { assert(bi0.contains_key(*vf_it3.seq()[i].0)); }
        }
        lemma_all_keyed(vf_it3.seq(), (idx + 1) as int, rs, block_indices@);
        lemma_mul_le(idx + 1, u.len(), capi);
    }
//@ before 0 `let vf_me = options.manual_edges();`
    let ghost g3 = control_flow_graph;
    let ghost ii = instruction_indices@;
    let ghost bi = block_indices@;
    proof {
        lemma_all_block_ends(g3, rs, ii, lay, bi);
        lemma_extends_refl(g3);
    }
//@ loop 5
    invariant
        opt == *options, vf_me@ == opt.manual_edges@, vf_mi <= vf_me@.len(),
        closed(rs, opt, function_address), keyed(rs, bi), ends_ok(g3, bi), block_indices@ == bi,
        tv == self.tr_view(), mv == memory.tm_view(), capb == tv.cap_blocks, capi == tv.cap_budget,
        results_ok(rs, capb, capi), origins_ok(tv, mv, opt, rs), rs.dom().len() > 0,
        layout_inv(g3, rs, ii, lay), blocks_done(g3, rs, ii, bi), g3.instr_budget() <= usize::MAX,
        control_flow_graph.cfg_wf(), extends(g3, control_flow_graph),
        control_flow_graph.graph.vertices == g3.graph.vertices, control_flow_graph.next_index == g3.next_index,
        control_flow_graph.entry == g3.entry,
        me_done(control_flow_graph, opt, bi, vf_mi as int),
    decreases vf_me@.len() - vf_mi,
//@ after 0 `vf_mi += 1;`
    let ghost gm = control_flow_graph;
    let ghost mi = (vf_mi - 1) as int;
    proof {
        assert(*manual_edge == opt.manual_edges@[mi]);
        assert(rs.contains_key(me_end(opt, mi, false)));
        assert(rs.contains_key(me_end(opt, mi, true)));
        assert(bi.contains_key(me_head(opt, mi)) && bi.contains_key(me_tail(opt, mi)));
    }
//@ before 0 `control_flow_graph.conditional_edge(edge_head, edge_tail, condition.clone())?;`
    proof {
        // this call cannot fail: both blocks exist and the edge is new
        assert(edge_call_ok(control_flow_graph, edge_head, edge_tail));
    }
//@ after 0 `control_flow_graph.conditional_edge(edge_head, edge_tail, condition.clone())?;`
    proof {
        lemma_edge_extends(gm, control_flow_graph, Edge { head: edge_head, tail: edge_tail, condition: Some(*condition), comment: None });
        lemma_extends_trans(g3, gm, control_flow_graph);
        lemma_me_done_frame(gm, control_flow_graph, opt, bi, mi);
    }
//@ before 0 `control_flow_graph.unconditional_edge(edge_head, edge_tail)?;`
    proof {
        // this call cannot fail: both blocks exist and the edge is new
        assert(edge_call_ok(control_flow_graph, edge_head, edge_tail));
    }
//@ after 0 `control_flow_graph.unconditional_edge(edge_head, edge_tail)?;`
    proof {
        lemma_edge_extends(gm, control_flow_graph, Edge { head: edge_head, tail: edge_tail, condition: None, comment: None });
        lemma_extends_trans(g3, gm, control_flow_graph);
        lemma_me_done_frame(gm, control_flow_graph, opt, bi, mi);
    }
//@ loop 6
    invariant
        opt == *options, rs == translation_results@, graph::seq_lists_map(vf_it6.seq(), rs),
        closed(rs, opt, function_address), keyed(rs, bi), ends_ok(g3, bi), block_indices@ == bi,
        tv == self.tr_view(), mv == memory.tm_view(), capb == tv.cap_blocks, capi == tv.cap_budget,
        results_ok(rs, capb, capi), origins_ok(tv, mv, opt, rs), rs.dom().len() > 0,
        layout_inv(g3, rs, ii, lay), blocks_done(g3, rs, ii, bi), g3.instr_budget() <= usize::MAX,
        control_flow_graph.cfg_wf(), extends(g3, control_flow_graph),
        control_flow_graph.graph.vertices == g3.graph.vertices, control_flow_graph.next_index == g3.next_index,
        control_flow_graph.entry == g3.entry,
        me_done(control_flow_graph, opt, bi, opt.manual_edges@.len() as int),
        forall|p: int| 0 <= p < vf_it6.index@ ==> succ_done(control_flow_graph, *(#[trigger] vf_it6.seq()[p]).1, bi, *vf_it6.seq()[p].0, vf_it6.seq()[p].1.successors@.len() as int),
        vf_it6.index@ == vf_it6.seq().len() ==> all_succ_done(control_flow_graph, rs, bi),
//@ after 0 `let address = *vf_a;`
    let ghost i6 = vf_it6.index@ as int;
    let ghost b6 = *block_translation_result;
    proof {
        assert(rs.contains_pair(*vf_it6.seq()[i6].0, *vf_it6.seq()[i6].1));
        assert(rs.contains_key(address) && rs[address] == b6);
        assert(bi.contains_key(address));
    }
//@ loop 7
    invariant
        opt == *options, vf_ss@ == b6.successors@, vf_si <= vf_ss@.len(), 0 <= i6 < vf_it6.seq().len(),
        rs.contains_key(address), rs[address] == b6, block_exit == bi[address].1, bi.contains_key(address),
        closed(rs, opt, function_address), keyed(rs, bi), ends_ok(g3, bi), block_indices@ == bi,
        tv == self.tr_view(), mv == memory.tm_view(), capb == tv.cap_blocks, capi == tv.cap_budget,
        results_ok(rs, capb, capi), origins_ok(tv, mv, opt, rs), rs.dom().len() > 0,
        layout_inv(g3, rs, ii, lay), blocks_done(g3, rs, ii, bi), g3.instr_budget() <= usize::MAX,
        control_flow_graph.cfg_wf(), extends(g3, control_flow_graph),
        control_flow_graph.graph.vertices == g3.graph.vertices, control_flow_graph.next_index == g3.next_index,
        control_flow_graph.entry == g3.entry,
        me_done(control_flow_graph, opt, bi, opt.manual_edges@.len() as int),
        forall|p: int| 0 <= p < i6 ==> succ_done(control_flow_graph, *(#[trigger] vf_it6.seq()[p]).1, bi, *vf_it6.seq()[p].0, vf_it6.seq()[p].1.successors@.len() as int),
        succ_done(control_flow_graph, b6, bi, address, vf_si as int),
    decreases vf_ss@.len() - vf_si,
//@ after 0 `vf_si += 1;`
    let ghost gs = control_flow_graph;
    let ghost si = (vf_si - 1) as int;
    proof {
        assert(*successor_address == b6.successors@[si].0);
        assert(rs.contains_key(rs[address].successors@[si].0));
        assert(bi.contains_key(*successor_address));
    }
//@ before 3 `continue;`
    proof {
        // the guard of the existing edge block_exit -> block_entry was widened: the edge is still there
        lemma_guard_extends(gs, control_flow_graph, block_exit, block_entry, control_flow_graph.graph.edges@[(block_exit, block_entry)]);
        lemma_succ_step(gs, control_flow_graph, g3, opt, bi, vf_it6.seq(), i6, b6, address, si);
    }
//@ before 1 `match successor_condition {`
    proof {
        // the edge call of either arm cannot fail: both blocks exist and the edge is new
        assert(edge_call_ok(control_flow_graph, block_exit, block_entry));
    }
//@ after 0 `None => control_flow_graph.unconditional_edge(block_exit, block_entry)?, }`
    proof {
        assert(control_flow_graph.has_edge(block_exit, block_entry));
        lemma_succ_step(gs, control_flow_graph, g3, opt, bi, vf_it6.seq(), i6, b6, address, si);
    }
//@ after 0 `None => control_flow_graph.unconditional_edge(block_exit, block_entry)?, } }`
    proof {
        lemma_all_succ(vf_it6.seq(), i6 + 1, control_flow_graph, rs, bi);
    }
//@ before 0 `control_flow_graph.set_entry(block_indices`
    let ghost g7 = control_flow_graph;
    proof {
        assert(bi.contains_key(function_address));
        lemma_layout_frame(g3, g7, rs, ii, lay);
        assert(ii_sub(ii, ii));
        lemma_blocks_frame(g3, g7, rs, ii, ii, bi);
    }
//@ before 0 `control_flow_graph.merge()?;`
    let ghost g8 = control_flow_graph;
    proof {
        assert(control_flow_graph.instr_budget() == g3.instr_budget());
        lemma_recovered(tv, mv, opt, function_address, g7, g8, rs, ii, bi, lay);
    }
//@ before 0 `Ok(Function::new(function_address, control_flow_graph))`
    proof {
        let w = Recovery { graph: g8, results: rs, ii, bi, layout: lay };
        assert(recovered(tv, mv, opt, function_address, w) && merged_from(control_flow_graph, w.graph));
    }
//@ end
}
