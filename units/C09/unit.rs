// Unit C09 - the fixed-point engine returns the least solution of the data-flow equations.
// Generated file = this template + the real text of the items named in the `//@` holes.
#![feature(allocator_api)]
#![allow(unused_imports, unused_variables, dead_code, unused_mut, non_snake_case, unused_parens, unused_braces, deprecated)]
use vstd::prelude::*;
use vstd::arithmetic::power2::*;
use vstd::arithmetic::div_mod::*;
use vstd::arithmetic::mul::*;
use std::ops::*;
use std::cmp;
use std::cmp::Ordering;
use std::collections::{BTreeMap, BTreeSet, VecDeque};
use std::fmt;
use std::rc::Rc;

verus! {

//@ include spec/bv.rs
//@ include prelude/bigint.rs
//@ include prelude/error.rs
//@ include prelude/fxhash.rs
//@ include prelude/stdcoll.rs
//@ include prelude/rc_asref.rs
//@ include prelude/location_hash.rs
//@ include prelude/fmt_option.rs
//@ include units/C11/error_from.rs
//@ mode contracts-only C15
//@ include units/C15/error_from_string.rs
//@ mode full

// falcon::RC (default build, feature "thread_safe" off): the real alias, extracted
//@ item lib/lib.rs :: type RC#0

pub mod graph {
use super::*;
use vstd::std_specs::iter::IteratorSpec;
use rustc_hash::{FxHashMap, FxHashSet};
broadcast use {rustc_hash::axiom_fx_builds_valid_hashers, stdcoll::axiom_btreemap_index_req, stdcoll::axiom_hashmap_index_req, stdcoll::axiom_usize_pair_obeys_key_model};
//@ mode contracts-only C11
//@ include units/C11/graph_core.rs
//@ mode full
proof fn vf_canary_graph() ensures false {}
} // mod graph

pub mod il {
use super::*;
use vstd::std_specs::iter::IteratorSpec;
//@ mode contracts-only C15
//@ include units/C15/il_core.rs
//@ mode contracts-only C18
//@ include units/C18/loc_core.rs
//@ include units/C18/loc_proofs.rs
//@ mode full
proof fn vf_canary_il() ensures false {}
} // mod il

// the trait contract + the abstract data-flow theory (no axioms, no broadcast use)
pub mod fixed_point {
use super::*;
use super::il::*;
use std::collections::HashMap;
use std::fmt::Debug;
//@ include units/C09/fp_trait.rs
//@ include units/C09/fp_theory.rs
proof fn vf_canary_fixed_point() ensures false {}
} // mod fixed_point

// the engine (keys hash maps on locations: the key-model axioms are in scope here only)
pub mod fixed_point_engine {
use super::*;
use super::il::*;
use super::fixed_point::*;
use std::collections::HashMap;
use std::fmt::Debug;
//@ include units/C09/fp_engine.rs
proof fn vf_canary_fixed_point_engine() ensures false {}
} // mod fixed_point_engine

pub mod fixed_point_engine_bwd {
use super::*;
use super::il::*;
use super::fixed_point::*;
use super::fixed_point_engine::DEFAULT_MAX_ANALYSIS_STEPS;
use std::collections::HashMap;
use std::fmt::Debug;
//@ include units/C09/fp_engine_bwd.rs
proof fn vf_canary_fixed_point_engine_bwd() ensures false {}
} // mod fixed_point_engine_bwd

// TEMPLATE CODE: a concrete model of the trait contract (satisfiability / vacuity guard) and a client
pub mod fixed_point_model {
use super::*;
use super::il::*;
use super::fixed_point::*;
use super::fixed_point_engine::*;
use std::collections::HashMap;
use std::fmt::Debug;
//@ include units/C09/fp_model.rs
proof fn vf_canary_fixed_point_model() ensures false {}
} // mod fixed_point_model

proof fn vf_canary_root() ensures false {}

} // verus!

fn main() {}
