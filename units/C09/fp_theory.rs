// ======================================================================================
// units/C09/fp_theory.rs - the abstract data-flow theory behind the fixed-point engine:
//   * the closure of the start location (the DOMAIN of the solution) and its induction principle,
//   * the join-fold over the inputs of a location and its lattice characterisation (a least upper bound),
//   * the data-flow EQUATIONS, post-fixpoints, LEASTNESS,
//   * the work-list invariants (domain / equations / ascending + least) and one lemma per engine step.
// Pure spec + proof code over abstract location maps `LMap<S> = spec_fn(Loc) -> Option<S>`; no axioms,
// no `//@ fn` holes.  Shared by the forward (fwd == true) and the backward (fwd == false) solver.
// ======================================================================================

/// an abstract solution: a partial map from locations to states
pub type LMap<S> = spec_fn(Loc) -> Option<S>;
/// a set of locations (the work list, abstractly)
pub type LSet = spec_fn(Loc) -> bool;

pub open spec fn lm_upd<S>(st: LMap<S>, x: Loc, v: S) -> LMap<S> {
    |l: Loc| if l == x { Some(v) } else { st(l) }
}

pub open spec fn lm_upd_opt<S>(st: LMap<S>, x: Loc, v: Option<S>) -> LMap<S> {
    |l: Loc| if l == x { v } else { st(l) }
}

// ---------------------------------------------------------------------------------------------
// steps and inputs are converse; the closure

/// in a well-formed function `l2` follows `l` exactly when `l` is an input of `l2`  (C18: forward and backward stepping are converse)
pub proof fn lemma_step_input(f: Function, fwd: bool, l: Loc, l2: Loc)
    requires f.function_wf(),
    ensures step(f, fwd, l, l2) <==> input_of(f, fwd, l2, l),
{
    if fwd { lemma_succ_pred_converse(f, l, l2); } else { lemma_succ_pred_converse(f, l2, l); }
}

/// both ends of a step are locations of the function
pub proof fn lemma_step_locs_valid(f: Function, fwd: bool, l: Loc, l2: Loc)
    requires f.function_wf(), step(f, fwd, l, l2),
    ensures loc_valid(f, l), loc_valid(f, l2),
{
    if fwd { lemma_step_valid(f, l, l2); } else { lemma_succ_pred_converse(f, l2, l); lemma_step_valid(f, l2, l); }
}

/// the start location is a location of the function
pub proof fn lemma_start_valid(f: Function, fwd: bool)
    requires f.function_wf(), start_loc(f, fwd) is Some,
    ensures loc_valid(f, start_loc(f, fwd).unwrap()),
{
    let cfg = f.control_flow_graph;
    if fwd {
        let e = cfg.entry.unwrap();
        if cfg.blocks_view()[e].instructions@.len() > 0 { lemma_instr_loc_valid(f, e, 0); }
    } else {
        let e = cfg.exit.unwrap();
        let n = cfg.blocks_view()[e].instructions@.len();
        if n > 0 { lemma_instr_loc_valid(f, e, n - 1); }
    }
}

pub proof fn lemma_closure_start(f: Function, fwd: bool)
    requires start_loc(f, fwd) is Some,
    ensures fp_closure(f, fwd, start_loc(f, fwd).unwrap()),
{
    reveal(fp_closure);
    let s = start_loc(f, fwd).unwrap();
    let p = seq![s];
    assert(fp_walk(f, fwd, p) && Some(p[0]) == start_loc(f, fwd) && p.last() == s);
}

pub proof fn lemma_closure_step(f: Function, fwd: bool, l: Loc, l2: Loc)
    requires fp_closure(f, fwd, l), step(f, fwd, l, l2),
    ensures fp_closure(f, fwd, l2),
{
    reveal(fp_closure);
    let p = choose|p: Seq<Loc>| #[trigger] fp_walk(f, fwd, p) && Some(p[0]) == start_loc(f, fwd) && p.last() == l;
    let q = p.push(l2);
    assert forall|i: int| 0 <= i < q.len() - 1 implies step(f, fwd, #[trigger] q[i], q[i + 1]) by {
        if i < p.len() - 1 { assert(step(f, fwd, p[i], p[i + 1])); }
    }
    assert(fp_walk(f, fwd, q) && Some(q[0]) == start_loc(f, fwd) && q.last() == l2);
}

proof fn lemma_walk_induct(f: Function, fwd: bool, p: Seq<Loc>, s: LSet)
    requires
        fp_walk(f, fwd, p),
        s(p[0]),
        forall|a: Loc, b: Loc| s(a) && #[trigger] step(f, fwd, a, b) ==> s(b),
    ensures s(p.last()),
    decreases p.len(),
{
    if p.len() > 1 {
        let q = p.drop_last();
        assert forall|i: int| 0 <= i < q.len() - 1 implies step(f, fwd, #[trigger] q[i], q[i + 1]) by {
            assert(step(f, fwd, p[i], p[i + 1]));
        }
        lemma_walk_induct(f, fwd, q, s);
        assert(step(f, fwd, p[p.len() - 2], p[p.len() - 2 + 1]));
    }
}

/// INDUCTION over the closure: a set that contains the start location and is closed under steps contains the closure
pub proof fn lemma_closure_induct(f: Function, fwd: bool, s: LSet)
    requires
        start_loc(f, fwd) matches Some(l0) ==> s(l0),
        forall|a: Loc, b: Loc| s(a) && #[trigger] step(f, fwd, a, b) ==> s(b),
    ensures forall|l: Loc| #[trigger] fp_closure(f, fwd, l) ==> s(l),
{
    reveal(fp_closure);
    assert forall|l: Loc| #[trigger] fp_closure(f, fwd, l) implies s(l) by {
        let p = choose|p: Seq<Loc>| #[trigger] fp_walk(f, fwd, p) && Some(p[0]) == start_loc(f, fwd) && p.last() == l;
        lemma_walk_induct(f, fwd, p, s);
    }
}

/// every location of the closure is a location of the function
pub proof fn lemma_closure_valid(f: Function, fwd: bool, l: Loc)
    requires f.function_wf(), fp_closure(f, fwd, l),
    ensures loc_valid(f, l),
{
    let p = |x: Loc| loc_valid(f, x);
    if start_loc(f, fwd) is Some { lemma_start_valid(f, fwd); }
    assert forall|a: Loc, b: Loc| p(a) && #[trigger] step(f, fwd, a, b) implies p(b) by {
        lemma_step_locs_valid(f, fwd, a, b);
    }
    lemma_closure_induct(f, fwd, p);
}

// ---------------------------------------------------------------------------------------------
// the join-fold over the inputs of a location

/// `ps` lists the inputs of `l` (its predecessors for a forward, its successors for a backward analysis),
/// each exactly once - what `RefProgramLocation::backward()` / `forward()` returns, as abstract locations
pub open spec fn lists_inputs(f: Function, fwd: bool, l: Loc, ps: Seq<Loc>) -> bool {
    &&& forall|i: int| 0 <= i < ps.len() ==> input_of(f, fwd, l, #[trigger] ps[i])
    &&& forall|i: int, j: int| 0 <= i < j < ps.len() ==> #[trigger] ps[i] != #[trigger] ps[j]
    &&& forall|p: Loc| #[trigger] input_of(f, fwd, l, p) ==> ps.contains(p)
}

/// one step of the engine's fold: `|s, p| match states.get(p) { Some(in_state) => match s { Some(s) =>
/// Some(join(s, in_state)), None => Some(in_state.clone()) }, None => s }`
pub open spec fn fold_step<'f, S: 'f + Clone + Debug + PartialOrd, A: FixedPointAnalysis<'f, S>>(a: &A, acc: Option<S>, x: Option<S>) -> Option<S> {
    match x {
        Some(xs) => match acc { Some(s) => Some(a.join_spec(s, xs)), None => Some(xs) },
        None => acc,
    }
}

/// the left fold of the states of the first `n` listed inputs (None: none of them has a state yet)
pub open spec fn fold_in<'f, S: 'f + Clone + Debug + PartialOrd, A: FixedPointAnalysis<'f, S>>(a: &A, st: LMap<S>, ps: Seq<Loc>, n: nat) -> Option<S>
    decreases n,
{
    if n == 0 { None } else { fold_step(a, fold_in(a, st, ps, (n - 1) as nat), st(ps[n - 1])) }
}

/// THE IN-STATE of a location: the left fold, in listing order, of the states of its inputs
pub open spec fn in_fold<'f, S: 'f + Clone + Debug + PartialOrd, A: FixedPointAnalysis<'f, S>>(a: &A, st: LMap<S>, ps: Seq<Loc>) -> Option<S> {
    fold_in(a, st, ps, ps.len())
}

/// the listed states satisfy the state invariant
pub open spec fn inputs_inv<'f, S: 'f + Clone + Debug + PartialOrd, A: FixedPointAnalysis<'f, S>>(a: &A, st: LMap<S>, ps: Seq<Loc>) -> bool {
    forall|i: int| 0 <= i < ps.len() ==> opt_inv(a, #[trigger] st(ps[i]))
}

pub proof fn lemma_opt_le_trans<'f, S: 'f + Clone + Debug + PartialOrd, A: FixedPointAnalysis<'f, S>>(a: &A, x: Option<S>, y: Option<S>, z: Option<S>)
    requires opt_inv(a, x), opt_inv(a, y), opt_inv(a, z), opt_le(a, x, y), opt_le(a, y, z),
    ensures opt_le(a, x, z),
{
    if x is Some { a.law_le_trans(x.unwrap(), y.unwrap(), z.unwrap()); }
}

pub proof fn lemma_opt_le_refl<'f, S: 'f + Clone + Debug + PartialOrd, A: FixedPointAnalysis<'f, S>>(a: &A, x: Option<S>)
    requires opt_inv(a, x),
    ensures opt_le(a, x, x),
{
    if x is Some { a.law_le_refl(x.unwrap()); }
}

/// the fold step preserves the state invariant and is monotone in both arguments
pub proof fn lemma_fold_step_mono<'f, S: 'f + Clone + Debug + PartialOrd, A: FixedPointAnalysis<'f, S>>(a: &A, acc1: Option<S>, x1: Option<S>, acc2: Option<S>, x2: Option<S>)
    requires opt_inv(a, acc1), opt_inv(a, x1), opt_inv(a, acc2), opt_inv(a, x2), opt_le(a, acc1, acc2), opt_le(a, x1, x2),
    ensures
        opt_inv(a, fold_step(a, acc1, x1)), opt_inv(a, fold_step(a, acc2, x2)),
        opt_le(a, fold_step(a, acc1, x1), fold_step(a, acc2, x2)),
{
    if acc1 is Some && x1 is Some { a.law_join_inv(acc1.unwrap(), x1.unwrap()); }
    if acc2 is Some && x2 is Some { a.law_join_inv(acc2.unwrap(), x2.unwrap()); a.law_join_ub(acc2.unwrap(), x2.unwrap()); }
    match x1 {
        None => {
            if acc1 is Some && x2 is Some {
                a.law_le_trans(acc1.unwrap(), acc2.unwrap(), a.join_spec(acc2.unwrap(), x2.unwrap()));
            }
        }
        Some(xs1) => {
            let xs2 = x2.unwrap();
            match acc1 {
                None => {
                    if acc2 is Some { a.law_le_trans(xs1, xs2, a.join_spec(acc2.unwrap(), xs2)); }
                }
                Some(s1) => {
                    let s2 = acc2.unwrap();
                    let j2 = a.join_spec(s2, xs2);
                    a.law_le_trans(s1, s2, j2);
                    a.law_le_trans(xs1, xs2, j2);
                    a.law_join_least(s1, xs1, j2);
                }
            }
        }
    }
}

/// the fold keeps the state invariant
pub proof fn lemma_fold_inv<'f, S: 'f + Clone + Debug + PartialOrd, A: FixedPointAnalysis<'f, S>>(a: &A, st: LMap<S>, ps: Seq<Loc>, n: nat)
    requires n <= ps.len(), inputs_inv(a, st, ps),
    ensures opt_inv(a, fold_in(a, st, ps, n)),
    decreases n,
{
    if n > 0 {
        lemma_fold_inv(a, st, ps, (n - 1) as nat);
        let acc = fold_in(a, st, ps, (n - 1) as nat);
        let x = st(ps[n - 1]);
        lemma_opt_le_refl(a, acc);
        lemma_opt_le_refl(a, x);
        lemma_fold_step_mono(a, acc, x, acc, x);
    }
}

/// UPPER BOUND: the fold is above the state of every listed input that has one
pub proof fn lemma_fold_ub<'f, S: 'f + Clone + Debug + PartialOrd, A: FixedPointAnalysis<'f, S>>(a: &A, st: LMap<S>, ps: Seq<Loc>, n: nat, i: int)
    requires 0 <= i < n <= ps.len(), inputs_inv(a, st, ps), st(ps[i]) is Some,
    ensures fold_in(a, st, ps, n) is Some, a.le(st(ps[i]).unwrap(), fold_in(a, st, ps, n).unwrap()),
    decreases n,
{
    let acc = fold_in(a, st, ps, (n - 1) as nat);
    let x = st(ps[n - 1]);
    lemma_fold_inv(a, st, ps, (n - 1) as nat);
    lemma_fold_inv(a, st, ps, n);
    assert(opt_inv(a, x));
    if i == n - 1 {
        match acc {
            Some(s) => { a.law_join_ub(s, x.unwrap()); }
            None => { a.law_le_refl(x.unwrap()); }
        }
    } else {
        lemma_fold_ub(a, st, ps, (n - 1) as nat, i);
        match x {
            Some(xs) => {
                a.law_join_ub(acc.unwrap(), xs);
                assert(opt_inv(a, st(ps[i])));
                a.law_le_trans(st(ps[i]).unwrap(), acc.unwrap(), a.join_spec(acc.unwrap(), xs));
            }
            None => {}
        }
    }
}

/// LEAST: the fold is below every upper bound of the listed states
pub proof fn lemma_fold_least<'f, S: 'f + Clone + Debug + PartialOrd, A: FixedPointAnalysis<'f, S>>(a: &A, st: LMap<S>, ps: Seq<Loc>, n: nat, c: S)
    requires
        n <= ps.len(), inputs_inv(a, st, ps), a.st_inv(c),
        forall|i: int| 0 <= i < n ==> (#[trigger] st(ps[i]) matches Some(x) ==> a.le(x, c)),
    ensures fold_in(a, st, ps, n) matches Some(j) ==> a.le(j, c),
    decreases n,
{
    if n > 0 {
        lemma_fold_least(a, st, ps, (n - 1) as nat, c);
        lemma_fold_inv(a, st, ps, (n - 1) as nat);
        let acc = fold_in(a, st, ps, (n - 1) as nat);
        let x = st(ps[n - 1]);
        assert(opt_inv(a, x));
        if acc is Some && x is Some { a.law_join_least(acc.unwrap(), x.unwrap(), c); }
    }
}

/// the fold has a value exactly when one of the listed inputs has a state
pub proof fn lemma_fold_some<'f, S: 'f + Clone + Debug + PartialOrd, A: FixedPointAnalysis<'f, S>>(a: &A, st: LMap<S>, ps: Seq<Loc>, n: nat)
    requires n <= ps.len(), fold_in(a, st, ps, n) is Some,
    ensures exists|i: int| 0 <= i < n && #[trigger] st(ps[i]) is Some,
    decreases n,
{
    if n > 0 {
        if st(ps[n - 1]) is Some {
        } else {
            lemma_fold_some(a, st, ps, (n - 1) as nat);
            let i = choose|i: int| 0 <= i < n - 1 && #[trigger] st(ps[i]) is Some;
            assert(0 <= i < n && st(ps[i]) is Some);
        }
    }
}

/// FRAME: the fold only reads the states of the listed inputs
pub proof fn lemma_fold_frame<'f, S: 'f + Clone + Debug + PartialOrd, A: FixedPointAnalysis<'f, S>>(a: &A, st1: LMap<S>, st2: LMap<S>, ps: Seq<Loc>, n: nat)
    requires n <= ps.len(), forall|i: int| 0 <= i < n ==> #[trigger] st1(ps[i]) == st2(ps[i]),
    ensures fold_in(a, st1, ps, n) == fold_in(a, st2, ps, n),
    decreases n,
{
    if n > 0 {
        lemma_fold_frame(a, st1, st2, ps, (n - 1) as nat);
        assert(st1(ps[n - 1]) == st2(ps[n - 1]));
    }
}

/// COMPARISON of two folds (different maps, different listings): if every state folded on the left is
/// below the state of the same location folded on the right, the left fold is below the right fold.
/// Instances: listing order is irrelevant (up to order-equivalence); the fold is monotone in the map;
/// the fold of a solution is below the fold of any post-fixpoint.
pub proof fn lemma_fold_le<'f, S: 'f + Clone + Debug + PartialOrd, A: FixedPointAnalysis<'f, S>>(a: &A, st1: LMap<S>, ps1: Seq<Loc>, st2: LMap<S>, ps2: Seq<Loc>)
    requires
        inputs_inv(a, st1, ps1), inputs_inv(a, st2, ps2),
        forall|i: int| 0 <= i < ps1.len() ==> (#[trigger] st1(ps1[i]) matches Some(x) ==>
            ps2.contains(ps1[i]) && (st2(ps1[i]) matches Some(y) && a.le(x, y))),
    ensures opt_le(a, in_fold(a, st1, ps1), in_fold(a, st2, ps2)),
{
    if in_fold(a, st1, ps1) is Some {
        lemma_fold_some(a, st1, ps1, ps1.len());
        let i0 = choose|i: int| 0 <= i < ps1.len() && #[trigger] st1(ps1[i]) is Some;
        assert(ps2.contains(ps1[i0]));
        let j0 = choose|j: int| 0 <= j < ps2.len() && ps2[j] == ps1[i0];
        lemma_fold_ub(a, st2, ps2, ps2.len(), j0);
        let c = in_fold(a, st2, ps2).unwrap();
        lemma_fold_inv(a, st2, ps2, ps2.len());
        assert forall|i: int| 0 <= i < ps1.len() implies (#[trigger] st1(ps1[i]) matches Some(x) ==> a.le(x, c)) by {
            if st1(ps1[i]) is Some {
                assert(ps2.contains(ps1[i]));
                let j = choose|j: int| 0 <= j < ps2.len() && ps2[j] == ps1[i];
                lemma_fold_ub(a, st2, ps2, ps2.len(), j);
                assert(opt_inv(a, st1(ps1[i])));
                assert(opt_inv(a, st2(ps2[j])));
                a.law_le_trans(st1(ps1[i]).unwrap(), st2(ps2[j]).unwrap(), c);
            }
        }
        lemma_fold_least(a, st1, ps1, ps1.len(), c);
    }
}

// ---------------------------------------------------------------------------------------------
// solutions: domain, equations, leastness

/// every state of the map satisfies the state invariant
pub open spec fn lm_inv<'f, S: 'f + Clone + Debug + PartialOrd, A: FixedPointAnalysis<'f, S>>(a: &A, st: LMap<S>) -> bool {
    forall|l: Loc| opt_inv(a, #[trigger] st(l))
}

/// (1) DOMAIN: the map has a state for exactly the locations of the closure of the start location
pub open spec fn solution_domain<S>(f: Function, fwd: bool, st: LMap<S>) -> bool {
    forall|l: Loc| #![trigger st(l)] #![trigger fp_closure(f, fwd, l)] st(l) is Some <==> fp_closure(f, fwd, l)
}

/// the data-flow equation at `l`: the state of `l` is (order-equivalent to) the transfer function applied to
/// the join-fold, in SOME listing order of the inputs of `l`, of the states of those inputs that have one
/// (the listing is the one `backward()` / `forward()` produced when `l` was last evaluated; by `lemma_fold_le`
/// every other listing gives an order-equivalent fold, and by lemma_fold_ub / lemma_fold_least the fold is a
/// least upper bound of the input states)
pub open spec fn eqn_at<'f, S: 'f + Clone + Debug + PartialOrd, A: FixedPointAnalysis<'f, S>>(a: &A, f: Function, fwd: bool, st: LMap<S>, l: Loc) -> bool {
    st(l) matches Some(x) && exists|ps: Seq<Loc>| #[trigger] lists_inputs(f, fwd, l, ps) && eqv(a, x, a.trans_spec(f, l, in_fold(a, st, ps)))
}

/// (2) EQUATIONS: the equation holds at every location that has a state
pub open spec fn solution_eqs<'f, S: 'f + Clone + Debug + PartialOrd, A: FixedPointAnalysis<'f, S>>(a: &A, f: Function, fwd: bool, st: LMap<S>) -> bool {
    forall|l: Loc| st(l) is Some ==> #[trigger] eqn_at(a, f, fwd, st, l)
}

/// the map restricted to the closure
pub open spec fn lm_restrict<S>(f: Function, fwd: bool, t: LMap<S>) -> LMap<S> {
    |l: Loc| if fp_closure(f, fwd, l) { t(l) } else { None }
}

/// `t` satisfies the data-flow INEQUATION at `l`: transfer(join of the inputs inside the closure) <= t(l)
pub open spec fn pf_at<'f, S: 'f + Clone + Debug + PartialOrd, A: FixedPointAnalysis<'f, S>>(a: &A, f: Function, fwd: bool, t: LMap<S>, l: Loc) -> bool {
    t(l) matches Some(x) && a.st_inv(x)
    && exists|ps: Seq<Loc>| #[trigger] lists_inputs(f, fwd, l, ps) && a.le(a.trans_spec(f, l, in_fold(a, lm_restrict(f, fwd, t), ps)), x)
}

/// `t` is a POST-FIXPOINT of the data-flow equations over the closure
pub open spec fn post_fixpoint<'f, S: 'f + Clone + Debug + PartialOrd, A: FixedPointAnalysis<'f, S>>(a: &A, f: Function, fwd: bool, t: LMap<S>) -> bool {
    forall|l: Loc| fp_closure(f, fwd, l) ==> #[trigger] pf_at(a, f, fwd, t, l)
}

/// pointwise order
pub open spec fn lm_below<'f, S: 'f + Clone + Debug + PartialOrd, A: FixedPointAnalysis<'f, S>>(a: &A, st: LMap<S>, t: LMap<S>) -> bool {
    forall|l: Loc| #[trigger] st(l) matches Some(x) ==> (t(l) matches Some(y) && a.le(x, y))
}

/// (3) LEASTNESS: the map is pointwise below every post-fixpoint
pub open spec fn solution_least<'f, S: 'f + Clone + Debug + PartialOrd, A: FixedPointAnalysis<'f, S>>(a: &A, f: Function, fwd: bool, st: LMap<S>) -> bool {
    forall|t: LMap<S>| #[trigger] post_fixpoint(a, f, fwd, t) ==> lm_below(a, st, t)
}

/// a solution of the equations with the right domain is itself a post-fixpoint (so "least" is not vacuous)
pub proof fn lemma_solution_is_post_fixpoint<'f, S: 'f + Clone + Debug + PartialOrd, A: FixedPointAnalysis<'f, S>>(a: &A, f: Function, fwd: bool, st: LMap<S>)
    requires solution_domain(f, fwd, st), solution_eqs(a, f, fwd, st), lm_inv(a, st),
    ensures post_fixpoint(a, f, fwd, st),
{
    assert(lm_restrict(f, fwd, st) =~= st);
    assert forall|l: Loc| fp_closure(f, fwd, l) implies #[trigger] pf_at(a, f, fwd, st, l) by {
        assert(st(l) is Some);
        assert(eqn_at(a, f, fwd, st, l));
        assert(opt_inv(a, st(l)));
        let ps = choose|ps: Seq<Loc>| #[trigger] lists_inputs(f, fwd, l, ps) && eqv(a, st(l).unwrap(), a.trans_spec(f, l, in_fold(a, st, ps)));
        assert(lists_inputs(f, fwd, l, ps) && a.le(a.trans_spec(f, l, in_fold(a, lm_restrict(f, fwd, st), ps)), st(l).unwrap()));
    }
}

// ---------------------------------------------------------------------------------------------
// work-list invariants

/// DOMAIN invariant of the work list (`inq`: the locations currently queued)
#[verifier::opaque]
pub open spec fn dom_inv<'f, S: 'f + Clone + Debug + PartialOrd, A: FixedPointAnalysis<'f, S>>(a: &A, f: Function, fwd: bool, st: LMap<S>, inq: LSet) -> bool {
    // states only inside the closure, and they satisfy the state invariant
    &&& forall|l: Loc| #[trigger] st(l) is Some ==> fp_closure(f, fwd, l) && a.st_inv(st(l).unwrap())
    // queued locations are inside the closure
    &&& forall|l: Loc| #[trigger] inq(l) ==> fp_closure(f, fwd, l)
    // the start location has a state or is queued
    &&& start_loc(f, fwd) matches Some(s) && (st(s) is Some || inq(s))
    // every location following a location with a state has a state or is queued
    &&& forall|l: Loc, l2: Loc| st(l) is Some && #[trigger] step(f, fwd, l, l2) ==> st(l2) is Some || inq(l2)
    // every queued location is the start location or follows a location with a state
    &&& forall|q: Loc| #[trigger] inq(q) ==> start_loc(f, fwd) == Some(q) || exists|x: Loc| st(x) is Some && #[trigger] step(f, fwd, x, q)
}

/// EQUATION invariant: the equation holds at every location with a state that is not queued
#[verifier::opaque]
pub open spec fn eq_inv<'f, S: 'f + Clone + Debug + PartialOrd, A: FixedPointAnalysis<'f, S>>(a: &A, f: Function, fwd: bool, st: LMap<S>, inq: LSet) -> bool {
    forall|l: Loc| st(l) is Some && !inq(l) ==> #[trigger] eqn_at(a, f, fwd, st, l)
}

/// `li(l)` is the in-state from which the state of `l` was last computed: the state is its image under the
/// transfer function, and it is below the current in-state of `l` whatever the listing order
pub open spec fn asc_at<'f, S: 'f + Clone + Debug + PartialOrd, A: FixedPointAnalysis<'f, S>>(a: &A, f: Function, fwd: bool, st: LMap<S>, li: LMap<S>, l: Loc) -> bool {
    st(l) matches Some(x) ==> {
        &&& opt_inv(a, li(l))
        &&& eqv(a, x, a.trans_spec(f, l, li(l)))
        &&& li(l) is None ==> start_loc(f, fwd) == Some(l)
        &&& forall|ps: Seq<Loc>| #[trigger] lists_inputs(f, fwd, l, ps) ==> opt_le(a, li(l), in_fold(a, st, ps))
    }
}

/// ASCENDING invariant (monotone analyses): every recomputation can only move a state up
#[verifier::opaque]
pub open spec fn asc_inv<'f, S: 'f + Clone + Debug + PartialOrd, A: FixedPointAnalysis<'f, S>>(a: &A, f: Function, fwd: bool, st: LMap<S>, li: LMap<S>) -> bool {
    forall|l: Loc| #[trigger] asc_at(a, f, fwd, st, li, l)
}

/// the abstract work list after the loop: nothing is queued
pub open spec fn ls_empty() -> LSet { |l: Loc| false }

pub proof fn lemma_inv_init<'f, S: 'f + Clone + Debug + PartialOrd, A: FixedPointAnalysis<'f, S>>(a: &A, f: Function, fwd: bool, st: LMap<S>, inq: LSet, li: LMap<S>)
    requires
        start_loc(f, fwd) is Some,
        forall|l: Loc| #[trigger] st(l) is None,
        forall|l: Loc| #[trigger] inq(l) <==> Some(l) == start_loc(f, fwd),
    ensures dom_inv(a, f, fwd, st, inq), eq_inv(a, f, fwd, st, inq), asc_inv(a, f, fwd, st, li), solution_least(a, f, fwd, st),
{
    reveal(dom_inv); reveal(eq_inv); reveal(asc_inv);
    lemma_closure_start(f, fwd);
    let s = start_loc(f, fwd).unwrap();
    assert(inq(s));
    assert forall|l: Loc| #[trigger] asc_at(a, f, fwd, st, li, l) by { assert(st(l) is None); }
    assert forall|t: LMap<S>| #[trigger] post_fixpoint(a, f, fwd, t) implies lm_below(a, st, t) by {
        assert forall|l: Loc| #[trigger] st(l) matches Some(x) ==> (t(l) matches Some(y) && a.le(x, y)) by { assert(st(l) is None); }
    }
}

/// facts about a queued location
pub proof fn lemma_queued<'f, S: 'f + Clone + Debug + PartialOrd, A: FixedPointAnalysis<'f, S>>(a: &A, f: Function, fwd: bool, st: LMap<S>, inq: LSet, x: Loc)
    requires f.function_wf(), dom_inv(a, f, fwd, st, inq), inq(x),
    ensures fp_closure(f, fwd, x), loc_valid(f, x), lm_inv(a, st),
{
    reveal(dom_inv);
    lemma_closure_valid(f, fwd, x);
    assert forall|l: Loc| opt_inv(a, #[trigger] st(l)) by { if st(l) is Some {} }
}

/// the in-state of a queued location other than the start location is never `None`
pub proof fn lemma_queued_fed<'f, S: 'f + Clone + Debug + PartialOrd, A: FixedPointAnalysis<'f, S>>(a: &A, f: Function, fwd: bool, st: LMap<S>, inq: LSet, x: Loc, ps: Seq<Loc>)
    requires f.function_wf(), dom_inv(a, f, fwd, st, inq), inq(x), lists_inputs(f, fwd, x, ps), in_fold(a, st, ps) is None,
    ensures start_loc(f, fwd) == Some(x),
{
    reveal(dom_inv);
    if start_loc(f, fwd) != Some(x) {
        let y = choose|y: Loc| st(y) is Some && #[trigger] step(f, fwd, y, x);
        lemma_step_input(f, fwd, y, x);
        assert(ps.contains(y));
        let i = choose|i: int| 0 <= i < ps.len() && ps[i] == y;
        assert forall|i: int| 0 <= i < ps.len() implies opt_inv(a, #[trigger] st(ps[i])) by { if st(ps[i]) is Some {} }
        lemma_fold_ub(a, st, ps, ps.len(), i);
    }
}

/// the listed input states satisfy the invariant
pub proof fn lemma_inputs_inv<'f, S: 'f + Clone + Debug + PartialOrd, A: FixedPointAnalysis<'f, S>>(a: &A, st: LMap<S>, ps: Seq<Loc>)
    requires lm_inv(a, st),
    ensures inputs_inv(a, st, ps),
{
}

/// ENGINE STEP "Equal => continue": the popped location keeps its state
pub proof fn lemma_iter_equal<'f, S: 'f + Clone + Debug + PartialOrd, A: FixedPointAnalysis<'f, S>>(a: &A, f: Function, fwd: bool, st: LMap<S>,
        inq_old: LSet, inq_rest: LSet, x: Loc, ps: Seq<Loc>, eqs: bool)
    requires
        dom_inv(a, f, fwd, st, inq_old),
        forall|l: Loc| #![trigger inq_old(l)] #![trigger inq_rest(l)] inq_old(l) <==> (l == x || inq_rest(l)),
        st(x) is Some,
        eqs ==> eq_inv(a, f, fwd, st, inq_old) && lists_inputs(f, fwd, x, ps) && eqv(a, st(x).unwrap(), a.trans_spec(f, x, in_fold(a, st, ps))),
    ensures
        dom_inv(a, f, fwd, st, inq_rest),
        eqs ==> eq_inv(a, f, fwd, st, inq_rest),
{
    reveal(dom_inv); reveal(eq_inv);
    assert forall|l: Loc| #[trigger] inq_rest(l) implies fp_closure(f, fwd, l) by { assert(inq_old(l)); }
    let s = start_loc(f, fwd).unwrap();
    assert(st(s) is Some || inq_rest(s)) by { if !(st(s) is Some) { assert(inq_old(s)); } }
    assert forall|l: Loc, l2: Loc| st(l) is Some && #[trigger] step(f, fwd, l, l2) implies st(l2) is Some || inq_rest(l2) by {
        if !(st(l2) is Some) { assert(inq_old(l2)); }
    }
    assert forall|q: Loc| #[trigger] inq_rest(q) implies start_loc(f, fwd) == Some(q) || exists|y: Loc| st(y) is Some && #[trigger] step(f, fwd, y, q) by {
        assert(inq_old(q));
    }
    if eqs {
        assert forall|l: Loc| st(l) is Some && !inq_rest(l) implies #[trigger] eqn_at(a, f, fwd, st, l) by {
            if l == x {
                assert(lists_inputs(f, fwd, x, ps) && eqv(a, st(x).unwrap(), a.trans_spec(f, x, in_fold(a, st, ps))));
            } else {
                assert(!inq_old(l));
            }
        }
    }
}

/// ENGINE STEP "insert + enqueue the followers", domain part (holds for every analysis, also with `force`)
pub proof fn lemma_iter_insert_dom<'f, S: 'f + Clone + Debug + PartialOrd, A: FixedPointAnalysis<'f, S>>(a: &A, f: Function, fwd: bool, st: LMap<S>,
        inq_old: LSet, inq_rest: LSet, inq_new: LSet, x: Loc, v: S)
    requires
        dom_inv(a, f, fwd, st, inq_old),
        forall|l: Loc| #![trigger inq_old(l)] #![trigger inq_rest(l)] inq_old(l) <==> (l == x || inq_rest(l)),
        forall|l: Loc| #![trigger inq_new(l)] #![trigger inq_rest(l)] #![trigger step(f, fwd, x, l)] inq_new(l) <==> (inq_rest(l) || step(f, fwd, x, l)),
        a.st_inv(v),
    ensures dom_inv(a, f, fwd, lm_upd(st, x, v), inq_new),
{
    reveal(dom_inv);
    let st2 = lm_upd(st, x, v);
    assert(inq_old(x));
    assert forall|l: Loc| #[trigger] st2(l) is Some implies fp_closure(f, fwd, l) && a.st_inv(st2(l).unwrap()) by {
        if l != x { assert(st(l) is Some); }
    }
    assert forall|l: Loc| #[trigger] inq_new(l) implies fp_closure(f, fwd, l) by {
        if inq_rest(l) { assert(inq_old(l)); } else { lemma_closure_step(f, fwd, x, l); }
    }
    let s = start_loc(f, fwd).unwrap();
    assert(st2(s) is Some || inq_new(s)) by {
        if s != x && !(st(s) is Some) { assert(inq_old(s)); assert(inq_rest(s)); }
    }
    assert forall|l: Loc, l2: Loc| st2(l) is Some && #[trigger] step(f, fwd, l, l2) implies st2(l2) is Some || inq_new(l2) by {
        if l == x {
        } else {
            assert(st(l) is Some);
            if st(l2) is Some { } else { assert(inq_old(l2)); if l2 != x { assert(inq_rest(l2)); } }
        }
    }
    assert forall|q: Loc| #[trigger] inq_new(q) implies start_loc(f, fwd) == Some(q) || exists|y: Loc| st2(y) is Some && #[trigger] step(f, fwd, y, q) by {
        if inq_rest(q) {
            assert(inq_old(q));
            if start_loc(f, fwd) != Some(q) {
                let y = choose|y: Loc| st(y) is Some && #[trigger] step(f, fwd, y, q);
                assert(st2(y) is Some && step(f, fwd, y, q));
            }
        } else {
            assert(st2(x) is Some && step(f, fwd, x, q));
        }
    }
}

/// a location that is not an input of `l` does not influence the in-state of `l`
pub proof fn lemma_fold_upd_other<'f, S: 'f + Clone + Debug + PartialOrd, A: FixedPointAnalysis<'f, S>>(a: &A, f: Function, fwd: bool, st: LMap<S>, x: Loc, v: S, l: Loc, ps: Seq<Loc>)
    requires lists_inputs(f, fwd, l, ps), !input_of(f, fwd, l, x),
    ensures in_fold(a, lm_upd(st, x, v), ps) == in_fold(a, st, ps),
{
    let st2 = lm_upd(st, x, v);
    assert forall|i: int| 0 <= i < ps.len() implies #[trigger] st2(ps[i]) == st(ps[i]) by {
        assert(input_of(f, fwd, l, ps[i]));
    }
    lemma_fold_frame(a, st2, st, ps, ps.len());
}

/// ENGINE STEP "insert + enqueue the followers", equation part
pub proof fn lemma_iter_insert_eq<'f, S: 'f + Clone + Debug + PartialOrd, A: FixedPointAnalysis<'f, S>>(a: &A, f: Function, fwd: bool, st: LMap<S>,
        inq_old: LSet, inq_rest: LSet, inq_new: LSet, x: Loc, ps: Seq<Loc>, v: S)
    requires
        f.function_wf(),
        eq_inv(a, f, fwd, st, inq_old),
        forall|l: Loc| #![trigger inq_old(l)] #![trigger inq_rest(l)] inq_old(l) <==> (l == x || inq_rest(l)),
        forall|l: Loc| #![trigger inq_new(l)] #![trigger inq_rest(l)] #![trigger step(f, fwd, x, l)] inq_new(l) <==> (inq_rest(l) || step(f, fwd, x, l)),
        lists_inputs(f, fwd, x, ps),
        eqv(a, v, a.trans_spec(f, x, in_fold(a, st, ps))),
    ensures eq_inv(a, f, fwd, lm_upd(st, x, v), inq_new),
{
    reveal(eq_inv);
    let st2 = lm_upd(st, x, v);
    assert forall|l: Loc| st2(l) is Some && !inq_new(l) implies #[trigger] eqn_at(a, f, fwd, st2, l) by {
        assert(!step(f, fwd, x, l));
        lemma_step_input(f, fwd, x, l);
        if l == x {
            lemma_fold_upd_other(a, f, fwd, st, x, v, x, ps);
            assert(lists_inputs(f, fwd, x, ps) && eqv(a, st2(x).unwrap(), a.trans_spec(f, x, in_fold(a, st2, ps))));
        } else {
            assert(!inq_rest(l));
            assert(!inq_old(l));
            assert(eqn_at(a, f, fwd, st, l));
            let pl = choose|pl: Seq<Loc>| #[trigger] lists_inputs(f, fwd, l, pl) && eqv(a, st(l).unwrap(), a.trans_spec(f, l, in_fold(a, st, pl)));
            lemma_fold_upd_other(a, f, fwd, st, x, v, l, pl);
            assert(lists_inputs(f, fwd, l, pl) && eqv(a, st2(l).unwrap(), a.trans_spec(f, l, in_fold(a, st2, pl))));
        }
    }
}

/// MONOTONE analyses: the recomputed state of a location is above its stored state
pub proof fn lemma_recomputed_above<'f, S: 'f + Clone + Debug + PartialOrd, A: FixedPointAnalysis<'f, S>>(a: &A, f: Function, fwd: bool, st: LMap<S>,
        inq: LSet, li: LMap<S>, x: Loc, ps: Seq<Loc>, v: S)
    requires
        f.function_wf(), a.an_inv(f), a.monotone(f, fwd),
        dom_inv(a, f, fwd, st, inq), asc_inv(a, f, fwd, st, li), inq(x),
        lists_inputs(f, fwd, x, ps),
        a.st_inv(v), eqv(a, v, a.trans_spec(f, x, in_fold(a, st, ps))),
        st(x) is Some,
    ensures a.le(st(x).unwrap(), v),
{
    reveal(asc_inv);
    lemma_queued(a, f, fwd, st, inq, x);
    assert(asc_at(a, f, fwd, st, li, x));
    let old = st(x).unwrap();
    assert(opt_inv(a, st(x)));
    let j = in_fold(a, st, ps);
    lemma_inputs_inv(a, st, ps);
    lemma_fold_inv(a, st, ps, ps.len());
    assert(opt_le(a, li(x), j));
    a.law_trans_mono(f, fwd, x, li(x), j);
    a.law_trans_inv(f, fwd, x, li(x));
    a.law_trans_inv(f, fwd, x, j);
    a.law_le_trans(old, a.trans_spec(f, x, li(x)), a.trans_spec(f, x, j));
    a.law_le_trans(old, a.trans_spec(f, x, j), v);
}

/// ENGINE STEP "insert", monotone part: the ascending invariant and leastness are kept
pub proof fn lemma_iter_insert_mono<'f, S: 'f + Clone + Debug + PartialOrd, A: FixedPointAnalysis<'f, S>>(a: &A, f: Function, fwd: bool, st: LMap<S>,
        inq: LSet, li: LMap<S>, x: Loc, ps: Seq<Loc>, v: S)
    requires
        f.function_wf(), a.an_inv(f), a.monotone(f, fwd),
        dom_inv(a, f, fwd, st, inq), asc_inv(a, f, fwd, st, li), solution_least(a, f, fwd, st), inq(x),
        lists_inputs(f, fwd, x, ps),
        a.st_inv(v), eqv(a, v, a.trans_spec(f, x, in_fold(a, st, ps))),
        st(x) matches Some(old) ==> a.le(old, v),
    ensures
        asc_inv(a, f, fwd, lm_upd(st, x, v), lm_upd_opt(li, x, in_fold(a, st, ps))),
        solution_least(a, f, fwd, lm_upd(st, x, v)),
{
    reveal(asc_inv);
    let st2 = lm_upd(st, x, v);
    let j = in_fold(a, st, ps);
    let li2 = lm_upd_opt(li, x, j);
    lemma_queued(a, f, fwd, st, inq, x);
    lemma_inputs_inv(a, st, ps);
    lemma_fold_inv(a, st, ps, ps.len());
    assert(lm_inv(a, st2)) by {
        assert forall|l: Loc| opt_inv(a, #[trigger] st2(l)) by { assert(opt_inv(a, st(l))); }
    }
    // st is pointwise below st2
    assert forall|l: Loc| opt_le(a, #[trigger] st(l), st2(l)) by {
        assert(opt_inv(a, st(l)));
        if l != x { lemma_opt_le_refl(a, st(l)); }
    }
    // ascending
    assert forall|l: Loc| #[trigger] asc_at(a, f, fwd, st2, li2, l) by {
        if st2(l) is Some {
            if l == x {
                if j is None { lemma_queued_fed(a, f, fwd, st, inq, x, ps); }
                assert forall|pl: Seq<Loc>| #[trigger] lists_inputs(f, fwd, x, pl) implies opt_le(a, li2(x), in_fold(a, st2, pl)) by {
                    lemma_inputs_inv(a, st2, pl);
                    assert forall|i: int| 0 <= i < ps.len() implies (#[trigger] st(ps[i]) matches Some(y) ==>
                        pl.contains(ps[i]) && (st2(ps[i]) matches Some(z) && a.le(y, z))) by {
                        assert(input_of(f, fwd, x, ps[i]));
                        assert(opt_le(a, st(ps[i]), st2(ps[i])));
                    }
                    lemma_fold_le(a, st, ps, st2, pl);
                }
            } else {
                assert(asc_at(a, f, fwd, st, li, l));
                assert forall|pl: Seq<Loc>| #[trigger] lists_inputs(f, fwd, l, pl) implies opt_le(a, li2(l), in_fold(a, st2, pl)) by {
                    lemma_inputs_inv(a, st, pl);
                    lemma_inputs_inv(a, st2, pl);
                    assert forall|i: int| 0 <= i < pl.len() implies (#[trigger] st(pl[i]) matches Some(y) ==>
                        pl.contains(pl[i]) && (st2(pl[i]) matches Some(z) && a.le(y, z))) by {
                        assert(opt_le(a, st(pl[i]), st2(pl[i])));
                    }
                    lemma_fold_le(a, st, pl, st2, pl);
                    lemma_fold_inv(a, st, pl, pl.len());
                    lemma_fold_inv(a, st2, pl, pl.len());
                    lemma_opt_le_trans(a, li(l), in_fold(a, st, pl), in_fold(a, st2, pl));
                }
            }
        }
    }
    // least
    assert forall|t: LMap<S>| #[trigger] post_fixpoint(a, f, fwd, t) implies lm_below(a, st2, t) by {
        assert(lm_below(a, st, t));
        assert(pf_at(a, f, fwd, t, x));
        let tx = t(x).unwrap();
        let tr = lm_restrict(f, fwd, t);
        let pt = choose|pt: Seq<Loc>| #[trigger] lists_inputs(f, fwd, x, pt) && a.le(a.trans_spec(f, x, in_fold(a, tr, pt)), tx);
        assert forall|i: int| 0 <= i < pt.len() implies opt_inv(a, #[trigger] tr(pt[i])) by {
            if fp_closure(f, fwd, pt[i]) { assert(pf_at(a, f, fwd, t, pt[i])); }
        }
        assert forall|i: int| 0 <= i < ps.len() implies (#[trigger] st(ps[i]) matches Some(y) ==>
            pt.contains(ps[i]) && (tr(ps[i]) matches Some(z) && a.le(y, z))) by {
            if st(ps[i]) is Some {
                assert(input_of(f, fwd, x, ps[i]));
                lemma_key_in_closure(a, f, fwd, st, inq, ps[i]);
            }
        }
        lemma_fold_le(a, st, ps, tr, pt);
        let jt = in_fold(a, tr, pt);
        lemma_fold_inv(a, tr, pt, pt.len());
        if j is None && jt is Some { lemma_queued_fed(a, f, fwd, st, inq, x, ps); }
        a.law_trans_mono(f, fwd, x, j, jt);
        a.law_trans_inv(f, fwd, x, j);
        a.law_trans_inv(f, fwd, x, jt);
        a.law_le_trans(v, a.trans_spec(f, x, j), a.trans_spec(f, x, jt));
        a.law_le_trans(v, a.trans_spec(f, x, jt), tx);
        assert forall|l: Loc| #[trigger] st2(l) matches Some(y) ==> (t(l) matches Some(z) && a.le(y, z)) by {
            if l != x { assert(st(l) matches Some(y) ==> (t(l) matches Some(z) && a.le(y, z))); }
        }
    }
}

pub proof fn lemma_key_in_closure<'f, S: 'f + Clone + Debug + PartialOrd, A: FixedPointAnalysis<'f, S>>(a: &A, f: Function, fwd: bool, st: LMap<S>, inq: LSet, l: Loc)
    requires dom_inv(a, f, fwd, st, inq), st(l) is Some,
    ensures fp_closure(f, fwd, l), a.st_inv(st(l).unwrap()),
{
    reveal(dom_inv);
}

/// AFTER THE LOOP: nothing is queued, so the domain is the whole closure and the equation holds everywhere
pub proof fn lemma_final<'f, S: 'f + Clone + Debug + PartialOrd, A: FixedPointAnalysis<'f, S>>(a: &A, f: Function, fwd: bool, st: LMap<S>, inq: LSet, eqs: bool)
    requires
        dom_inv(a, f, fwd, st, inq), eqs ==> eq_inv(a, f, fwd, st, inq),
        forall|l: Loc| !#[trigger] inq(l),
    ensures
        solution_domain(f, fwd, st), lm_inv(a, st),
        eqs ==> solution_eqs(a, f, fwd, st),
{
    reveal(dom_inv); reveal(eq_inv);
    let p = |l: Loc| st(l) is Some;
    let s = start_loc(f, fwd).unwrap();
    assert(!inq(s));
    assert forall|x: Loc, y: Loc| p(x) && #[trigger] step(f, fwd, x, y) implies p(y) by { assert(!inq(y)); }
    lemma_closure_induct(f, fwd, p);
    assert forall|l: Loc| #![trigger st(l)] #![trigger fp_closure(f, fwd, l)] st(l) is Some <==> fp_closure(f, fwd, l) by {
        if fp_closure(f, fwd, l) { assert(p(l)); }
    }
    assert forall|l: Loc| opt_inv(a, #[trigger] st(l)) by { if st(l) is Some {} }
    if eqs {
        assert forall|l: Loc| st(l) is Some implies #[trigger] eqn_at(a, f, fwd, st, l) by { assert(!inq(l)); }
    }
}

// ---------------------------------------------------------------------------------------------
// client-facing consequences of the solver's postconditions

/// `c` is an upper bound of the states of the inputs of `l`
pub open spec fn inputs_below<'f, S: 'f + Clone + Debug + PartialOrd, A: FixedPointAnalysis<'f, S>>(a: &A, f: Function, fwd: bool, st: LMap<S>, l: Loc, c: S) -> bool {
    forall|p: Loc| input_of(f, fwd, l, p) && #[trigger] st(p) is Some ==> a.le(st(p).unwrap(), c)
}

/// the in-state is a LEAST UPPER BOUND of the states of the inputs ("the join of the states of its predecessors")
pub proof fn lemma_in_fold_is_lub<'f, S: 'f + Clone + Debug + PartialOrd, A: FixedPointAnalysis<'f, S>>(a: &A, f: Function, fwd: bool, st: LMap<S>, l: Loc, ps: Seq<Loc>)
    requires lm_inv(a, st), lists_inputs(f, fwd, l, ps),
    ensures
        opt_inv(a, in_fold(a, st, ps)),
        in_fold(a, st, ps) is Some <==> exists|p: Loc| input_of(f, fwd, l, p) && #[trigger] st(p) is Some,
        in_fold(a, st, ps) matches Some(j) ==> inputs_below(a, f, fwd, st, l, j),
        forall|c: S| a.st_inv(c) && #[trigger] inputs_below(a, f, fwd, st, l, c) && in_fold(a, st, ps) is Some ==> a.le(in_fold(a, st, ps).unwrap(), c),
{
    lemma_inputs_inv(a, st, ps);
    lemma_fold_inv(a, st, ps, ps.len());
    assert forall|p: Loc| input_of(f, fwd, l, p) && #[trigger] st(p) is Some implies in_fold(a, st, ps) is Some && a.le(st(p).unwrap(), in_fold(a, st, ps).unwrap()) by {
        assert(ps.contains(p));
        let i = choose|i: int| 0 <= i < ps.len() && ps[i] == p;
        lemma_fold_ub(a, st, ps, ps.len(), i);
    }
    if in_fold(a, st, ps) is Some {
        lemma_fold_some(a, st, ps, ps.len());
        let i = choose|i: int| 0 <= i < ps.len() && #[trigger] st(ps[i]) is Some;
        assert(input_of(f, fwd, l, ps[i]) && st(ps[i]) is Some);
    }
    assert forall|c: S| a.st_inv(c) && #[trigger] inputs_below(a, f, fwd, st, l, c) && in_fold(a, st, ps) is Some implies a.le(in_fold(a, st, ps).unwrap(), c) by {
        assert forall|i: int| 0 <= i < ps.len() implies (#[trigger] st(ps[i]) matches Some(y) ==> a.le(y, c)) by {
            assert(input_of(f, fwd, l, ps[i]));
        }
        lemma_fold_least(a, st, ps, ps.len(), c);
    }
}

/// the listing order is irrelevant: the equation holds for EVERY listing of the inputs
pub proof fn lemma_eqn_any_listing<'f, S: 'f + Clone + Debug + PartialOrd, A: FixedPointAnalysis<'f, S>>(a: &A, f: Function, fwd: bool, st: LMap<S>, l: Loc, ps: Seq<Loc>)
    requires
        f.function_wf(), a.an_inv(f), lm_inv(a, st), fp_closure(f, fwd, l),
        eqn_at(a, f, fwd, st, l), lists_inputs(f, fwd, l, ps),
    ensures eqv(a, st(l).unwrap(), a.trans_spec(f, l, in_fold(a, st, ps))),
{
    let p0 = choose|p0: Seq<Loc>| #[trigger] lists_inputs(f, fwd, l, p0) && eqv(a, st(l).unwrap(), a.trans_spec(f, l, in_fold(a, st, p0)));
    lemma_inputs_inv(a, st, ps);
    lemma_inputs_inv(a, st, p0);
    assert forall|i: int| 0 <= i < ps.len() implies (#[trigger] st(ps[i]) matches Some(x) ==>
        p0.contains(ps[i]) && (st(ps[i]) matches Some(y) && a.le(x, y))) by {
        assert(input_of(f, fwd, l, ps[i]));
        lemma_opt_le_refl(a, st(ps[i]));
    }
    assert forall|i: int| 0 <= i < p0.len() implies (#[trigger] st(p0[i]) matches Some(x) ==>
        ps.contains(p0[i]) && (st(p0[i]) matches Some(y) && a.le(x, y))) by {
        assert(input_of(f, fwd, l, p0[i]));
        lemma_opt_le_refl(a, st(p0[i]));
    }
    lemma_fold_le(a, st, ps, st, p0);
    lemma_fold_le(a, st, p0, st, ps);
    lemma_fold_inv(a, st, ps, ps.len());
    lemma_fold_inv(a, st, p0, p0.len());
    let j = in_fold(a, st, ps);
    let j0 = in_fold(a, st, p0);
    a.law_trans_inv(f, fwd, l, j);
    a.law_trans_inv(f, fwd, l, j0);
    assert(opt_inv(a, st(l)));
    if j is Some {
        a.law_trans_cong(f, fwd, l, j.unwrap(), j0.unwrap());
        a.law_trans_cong(f, fwd, l, j0.unwrap(), j.unwrap());
        a.law_le_trans(st(l).unwrap(), a.trans_spec(f, l, j0), a.trans_spec(f, l, j));
        a.law_le_trans(a.trans_spec(f, l, j), a.trans_spec(f, l, j0), st(l).unwrap());
    }
}

/// the domain contains the start location and is closed under steps
pub proof fn lemma_solution_closed<S>(f: Function, fwd: bool, st: LMap<S>)
    requires solution_domain(f, fwd, st),
    ensures
        start_loc(f, fwd) matches Some(s) ==> st(s) is Some,
        forall|l: Loc, l2: Loc| st(l) is Some && #[trigger] step(f, fwd, l, l2) ==> st(l2) is Some,
{
    if start_loc(f, fwd) is Some { lemma_closure_start(f, fwd); }
    assert forall|l: Loc, l2: Loc| st(l) is Some && #[trigger] step(f, fwd, l, l2) implies st(l2) is Some by {
        lemma_closure_step(f, fwd, l, l2);
    }
}

// ---------------------------------------------------------------------------------------------
// glue shared by the two solvers (direction-agnostic, no concrete collections)

/// abstract locations of a list of borrowed program locations
pub open spec fn rpl_locs(v: Seq<RefProgramLocation>) -> Seq<Loc> {
    Seq::new(v.len(), |i: int| v[i].loc())
}

/// what `backward()` (forward analysis) / `forward()` (backward analysis) returns lists the inputs
pub proof fn lemma_rpls_inputs(v: Seq<RefProgramLocation>, f: Function, fwd: bool, x: Loc, sel: spec_fn(Loc) -> bool)
    requires lists_rpls(v, f, sel), forall|l: Loc| #![trigger sel(l)] sel(l) <==> input_of(f, fwd, x, l),
    ensures
        lists_inputs(f, fwd, x, rpl_locs(v)),
        forall|i: int| 0 <= i < v.len() ==> *(#[trigger] v[i]).function == f && rfl_in(f, v[i].function_location),
{
    let ps = rpl_locs(v);
    assert forall|i: int| 0 <= i < ps.len() implies input_of(f, fwd, x, #[trigger] ps[i]) by {
        assert(sel(loc_of(v[i].function_location)));
    }
    assert forall|i: int, j: int| 0 <= i < j < ps.len() implies #[trigger] ps[i] != #[trigger] ps[j] by {
        assert(loc_of(v[i].function_location) != loc_of(v[j].function_location));
    }
    assert forall|p: Loc| #[trigger] input_of(f, fwd, x, p) implies ps.contains(p) by {
        assert(sel(p));
        let i = choose|i: int| 0 <= i < v.len() && loc_of((#[trigger] v[i]).function_location) == p;
        assert(ps[i] == p);
    }
}

/// what `forward()` (forward analysis) / `backward()` (backward analysis) returns lists the followers
pub proof fn lemma_rpls_steps(v: Seq<RefProgramLocation>, f: Function, fwd: bool, x: Loc, sel: spec_fn(Loc) -> bool)
    requires lists_rpls(v, f, sel), forall|l: Loc| #![trigger sel(l)] sel(l) <==> step(f, fwd, x, l),
    ensures
        forall|i: int| 0 <= i < v.len() ==> *(#[trigger] v[i]).function == f && rfl_in(f, v[i].function_location) && step(f, fwd, x, v[i].loc()),
        forall|l: Loc| #[trigger] step(f, fwd, x, l) ==> rpl_locs(v).contains(l),
{
    let ps = rpl_locs(v);
    assert forall|i: int| 0 <= i < v.len() implies step(f, fwd, x, (#[trigger] v[i]).loc()) by {
        assert(sel(loc_of(v[i].function_location)));
    }
    assert forall|l: Loc| #[trigger] step(f, fwd, x, l) implies ps.contains(l) by {
        assert(sel(l));
        let i = choose|i: int| 0 <= i < v.len() && loc_of((#[trigger] v[i]).function_location) == l;
        assert(ps[i] == l);
    }
}

/// order-equivalence of optional states
pub open spec fn opt_eqv<'f, S: 'f + Clone + Debug + PartialOrd, A: FixedPointAnalysis<'f, S>>(a: &A, x: Option<S>, y: Option<S>) -> bool {
    opt_le(a, x, y) && opt_le(a, y, x)
}

/// one executed step of the predecessor fold computes (up to order-equivalence) one step of the spec fold
pub proof fn lemma_fold_step_exec<'f, S: 'f + Clone + Debug + PartialOrd, A: FixedPointAnalysis<'f, S>>(a: &A, acc_exec: Option<S>, acc_spec: Option<S>, x: Option<S>, r: Option<S>)
    requires
        opt_inv(a, acc_exec), opt_inv(a, acc_spec), opt_inv(a, x), opt_eqv(a, acc_exec, acc_spec),
        match x {
            Some(xs) => r matches Some(rv) && a.st_inv(rv) && match acc_exec {
                Some(s) => eqv(a, rv, a.join_spec(s, xs)),
                None => eqv(a, rv, xs),
            },
            None => r == acc_exec,
        },
    ensures opt_inv(a, r), opt_eqv(a, r, fold_step(a, acc_spec, x)),
{
    lemma_opt_le_refl(a, x);
    lemma_fold_step_mono(a, acc_exec, x, acc_spec, x);
    lemma_fold_step_mono(a, acc_spec, x, acc_exec, x);
    let e = fold_step(a, acc_exec, x);
    let s = fold_step(a, acc_spec, x);
    if x is Some {
        let rv = r.unwrap();
        a.law_le_trans(rv, e.unwrap(), s.unwrap());
        a.law_le_trans(s.unwrap(), e.unwrap(), rv);
    }
}

/// the executed transfer computes (up to order-equivalence) the transfer of the spec in-state
pub proof fn lemma_trans_exec<'f, S: 'f + Clone + Debug + PartialOrd, A: FixedPointAnalysis<'f, S>>(a: &A, f: Function, fwd: bool, x: Loc, in_exec: Option<S>, in_spec: Option<S>, v: S)
    requires
        a.an_inv(f), f.function_wf(), fp_closure(f, fwd, x),
        opt_inv(a, in_exec), opt_inv(a, in_spec), opt_eqv(a, in_exec, in_spec),
        a.st_inv(v), eqv(a, v, a.trans_spec(f, x, in_exec)),
    ensures eqv(a, v, a.trans_spec(f, x, in_spec)),
{
    a.law_trans_inv(f, fwd, x, in_exec);
    a.law_trans_inv(f, fwd, x, in_spec);
    if in_exec is Some {
        a.law_trans_cong(f, fwd, x, in_exec.unwrap(), in_spec.unwrap());
        a.law_trans_cong(f, fwd, x, in_spec.unwrap(), in_exec.unwrap());
        a.law_le_trans(v, a.trans_spec(f, x, in_exec), a.trans_spec(f, x, in_spec));
        a.law_le_trans(a.trans_spec(f, x, in_spec), a.trans_spec(f, x, in_exec), v);
    }
}

/// the errors the solver may return
pub open spec fn fp_error<'f, S: 'f + Clone + Debug + PartialOrd, A: FixedPointAnalysis<'f, S>>(a: &A, f: Function, fwd: bool, force: bool, e: Error) -> bool {
    ||| start_loc(f, fwd) is None && e == (if fwd { Error::FixedPointRequiresEntry } else { Error::FixedPointRequiresExit })
    ||| start_loc(f, fwd) is Some && fwd && e == Error::FixedPointMaxSteps
    ||| start_loc(f, fwd) is Some && trans_failed(a, f, fwd, e)
    ||| start_loc(f, fwd) is Some && !force && !a.monotone(f, fwd) && e is FixedPointOrdering
}

/// `e` is an error `trans` returned at a location of the closure
pub open spec fn trans_failed<'f, S: 'f + Clone + Debug + PartialOrd, A: FixedPointAnalysis<'f, S>>(a: &A, f: Function, fwd: bool, e: Error) -> bool {
    exists|l: Loc, s: Option<S>| fp_closure(f, fwd, l) && opt_inv(a, s) && #[trigger] a.trans_err(f, l, s, e)
}

/// the state of the popped location after the `Equal => continue` arm satisfies its equation
pub proof fn lemma_equal_case<'f, S: 'f + Clone + Debug + PartialOrd, A: FixedPointAnalysis<'f, S>>(a: &A, f: Function, fwd: bool, st: LMap<S>, inq: LSet, li: LMap<S>,
        x: Loc, ps: Seq<Loc>, v: S)
    requires
        f.function_wf(), a.an_inv(f),
        a.cmp_exact() || a.monotone(f, fwd),
        dom_inv(a, f, fwd, st, inq), inq(x), st(x) is Some,
        a.monotone(f, fwd) ==> asc_inv(a, f, fwd, st, li),
        lists_inputs(f, fwd, x, ps),
        a.st_inv(v), eqv(a, v, a.trans_spec(f, x, in_fold(a, st, ps))),
        vstd::std_specs::cmp::PartialOrdSpec::partial_cmp_spec(&v, &st(x).unwrap()) == Some(core::cmp::Ordering::Equal),
    ensures eqv(a, st(x).unwrap(), a.trans_spec(f, x, in_fold(a, st, ps))),
{
    let old = st(x).unwrap();
    lemma_queued(a, f, fwd, st, inq, x);
    assert(opt_inv(a, st(x)));
    lemma_inputs_inv(a, st, ps);
    lemma_fold_inv(a, st, ps, ps.len());
    let tv = a.trans_spec(f, x, in_fold(a, st, ps));
    a.law_trans_inv(f, fwd, x, in_fold(a, st, ps));
    if a.monotone(f, fwd) {
        lemma_recomputed_above(a, f, fwd, st, inq, li, x, ps, v);
        a.law_cmp_equal(f, fwd, v, old);
    } else {
        a.law_cmp_exact(v, old);
    }
    a.law_le_trans(old, v, tv);
    a.law_le_trans(tv, v, old);
}

/// a monotone analysis never reaches the FixedPointOrdering error
pub proof fn lemma_no_ordering_error<'f, S: 'f + Clone + Debug + PartialOrd, A: FixedPointAnalysis<'f, S>>(a: &A, f: Function, fwd: bool, st: LMap<S>, inq: LSet, li: LMap<S>,
        x: Loc, ps: Seq<Loc>, v: S)
    requires
        f.function_wf(), a.an_inv(f), a.monotone(f, fwd),
        dom_inv(a, f, fwd, st, inq), inq(x), st(x) is Some,
        asc_inv(a, f, fwd, st, li),
        lists_inputs(f, fwd, x, ps),
        a.st_inv(v), eqv(a, v, a.trans_spec(f, x, in_fold(a, st, ps))),
    ensures
        a.le(st(x).unwrap(), v),
        vstd::std_specs::cmp::PartialOrdSpec::partial_cmp_spec(&v, &st(x).unwrap()) == Some(core::cmp::Ordering::Equal)
            || vstd::std_specs::cmp::PartialOrdSpec::partial_cmp_spec(&v, &st(x).unwrap()) == Some(core::cmp::Ordering::Greater),
{
    lemma_queued(a, f, fwd, st, inq, x);
    assert(opt_inv(a, st(x)));
    lemma_recomputed_above(a, f, fwd, st, inq, li, x, ps, v);
    a.law_cmp_ascending(f, fwd, v, st(x).unwrap());
}

/// the queue-dependent part of the work-list invariant
pub open spec fn q_inv<'f, S: 'f + Clone + Debug + PartialOrd, A: FixedPointAnalysis<'f, S>>(a: &A, f: Function, fwd: bool, eqs: bool, st: LMap<S>, inq: LSet) -> bool {
    dom_inv(a, f, fwd, st, inq) && (eqs ==> eq_inv(a, f, fwd, st, inq))
}

/// the work list after enqueuing the first `n` listed followers: the rest of the old queue plus those followers
pub open spec fn queue_rel(inq_rest: LSet, inq_new: LSet, locs: Seq<Loc>, n: int) -> bool {
    forall|l: Loc| #![trigger inq_new(l)] inq_new(l) <==> (inq_rest(l) || exists|j: int| 0 <= j < n && locs[j] == l)
}

/// one iteration of the enqueue loop: `a` is the work list before, `b` the work list after pushing follower `n`
pub proof fn lemma_queue_rel_step(inq_rest: LSet, a: LSet, b: LSet, locs: Seq<Loc>, n: int)
    requires queue_rel(inq_rest, a, locs, n), 0 <= n < locs.len(),
    ensures
        a(locs[n]) ==> queue_rel(inq_rest, a, locs, n + 1),
        (forall|l: Loc| #![trigger b(l)] b(l) <==> (a(l) || l == locs[n])) ==> queue_rel(inq_rest, b, locs, n + 1),
{
    if a(locs[n]) {
        assert forall|l: Loc| #![trigger a(l)] a(l) <==> (inq_rest(l) || exists|j: int| 0 <= j < n + 1 && locs[j] == l) by {
            assert(a(l) <==> (inq_rest(l) || exists|j: int| 0 <= j < n && locs[j] == l));
        }
    }
    if forall|l: Loc| #![trigger b(l)] b(l) <==> (a(l) || l == locs[n]) {
        assert forall|l: Loc| #![trigger b(l)] b(l) <==> (inq_rest(l) || exists|j: int| 0 <= j < n + 1 && locs[j] == l) by {
            assert(a(l) <==> (inq_rest(l) || exists|j: int| 0 <= j < n && locs[j] == l));
        }
    }
}

