// ======================================================================================
// units/C09/fp_engine.rs - the forward solver of lib/analysis/fixed_point.rs under contract:
// fixed_point_forward_options, fixed_point_forward.
// The work-list invariants and one lemma per engine step are in units/C09/fp_theory.rs; this file
// only ties the concrete data (HashMap<ProgramLocation, State>, VecDeque<ProgramLocation>) to
// the abstract maps / sets of the theory.
// ======================================================================================
broadcast use {location_hash::axiom_program_location_obeys_key_model, vstd::std_specs::hash::axiom_random_state_builds_valid_hashers};

/// the owned form of location `l` of function `f` (what `RefProgramLocation::into()` yields)
pub open spec fn ploc(f: Function, l: Loc) -> ProgramLocation {
    ProgramLocation { function_index: f.index, function_location: loc_fl(l) }
}

/// the abstract solution a `HashMap<ProgramLocation, State>` denotes for function `f`
pub open spec fn fview<S>(m: Map<ProgramLocation, S>, f: Function) -> LMap<S> {
    |l: Loc| if m.contains_key(ploc(f, l)) { Some(m[ploc(f, l)]) } else { None }
}

/// every key is a location of function `f` (carries f's function index)
pub open spec fn fkeys_ok<S>(m: Map<ProgramLocation, S>, f: Function) -> bool {
    forall|k: ProgramLocation| #[trigger] m.contains_key(k) ==> k.function_index == f.index
}

/// the abstract work list
pub open spec fn fqueue(q: Seq<ProgramLocation>, f: Function) -> LSet {
    |l: Loc| q.contains(ploc(f, l))
}

pub open spec fn fq_ok(q: Seq<ProgramLocation>, f: Function) -> bool {
    forall|i: int| 0 <= i < q.len() ==> (#[trigger] q[i]).function_index == f.index
}

pub proof fn lemma_ploc_inj(f: Function, l: Loc, x: Loc)
    ensures (ploc(f, l) == ploc(f, x)) <==> l == x, fl_loc(loc_fl(l)) == l,
{
}

pub proof fn lemma_ploc_of(f: Function, k: ProgramLocation)
    requires k.function_index == f.index,
    ensures k == ploc(f, fl_loc(k.function_location)),
{
}

pub proof fn lemma_fview_insert<S>(m: Map<ProgramLocation, S>, f: Function, x: Loc, v: S)
    ensures fview(m.insert(ploc(f, x), v), f) == lm_upd(fview(m, f), x, v),
{
    assert forall|l: Loc| #[trigger] fview(m.insert(ploc(f, x), v), f)(l) == lm_upd(fview(m, f), x, v)(l) by {
        lemma_ploc_inj(f, l, x);
    }
    assert(fview(m.insert(ploc(f, x), v), f) =~= lm_upd(fview(m, f), x, v));
}

pub proof fn lemma_fqueue_pop(q: Seq<ProgramLocation>, f: Function, x: Loc)
    requires q.len() > 0, q[0] == ploc(f, x),
    ensures forall|l: Loc| #![trigger fqueue(q, f)(l)] #![trigger fqueue(q.subrange(1, q.len() as int), f)(l)]
        fqueue(q, f)(l) <==> (l == x || fqueue(q.subrange(1, q.len() as int), f)(l)),
{
    let r = q.subrange(1, q.len() as int);
    let a = fqueue(q, f);
    let b = fqueue(r, f);
    assert forall|l: Loc| #![trigger a(l)] #![trigger b(l)] a(l) <==> (l == x || b(l)) by {
        lemma_ploc_inj(f, l, x);
        let k = ploc(f, l);
        if q.contains(k) {
            let i = choose|i: int| 0 <= i < q.len() && q[i] == k;
            if i > 0 { assert(r[i - 1] == k); }
        }
        if r.contains(k) {
            let i = choose|i: int| 0 <= i < r.len() && r[i] == k;
            assert(q[i + 1] == k);
        }
    }
}

pub proof fn lemma_fqueue_push(q: Seq<ProgramLocation>, f: Function, x: Loc)
    ensures
        forall|l: Loc| #![trigger fqueue(q.push(ploc(f, x)), f)(l)] fqueue(q.push(ploc(f, x)), f)(l) <==> (fqueue(q, f)(l) || l == x),
        fq_ok(q, f) ==> fq_ok(q.push(ploc(f, x)), f),
{
    let k = ploc(f, x);
    let q2 = q.push(k);
    assert forall|l: Loc| #![trigger fqueue(q2, f)(l)] fqueue(q2, f)(l) <==> (fqueue(q, f)(l) || l == x) by {
        lemma_ploc_inj(f, l, x);
        if q2.contains(ploc(f, l)) {
            let i = choose|i: int| 0 <= i < q2.len() && q2[i] == ploc(f, l);
            if i < q.len() { assert(q[i] == ploc(f, l)); }
        }
        if q.contains(ploc(f, l)) {
            let i = choose|i: int| 0 <= i < q.len() && q[i] == ploc(f, l);
            assert(q2[i] == ploc(f, l));
        }
        if l == x { assert(q2[q.len() as int] == k); }
    }
}

/// a valid location can be applied to its function
pub proof fn lemma_valid_applies(f: Function, fl: FunctionLocation)
    requires loc_valid(f, fl_loc(fl)),
    ensures fl_applies(f, fl),
{
}

//@ source lib/analysis/fixed_point.rs
//@ item const DEFAULT_MAX_ANALYSIS_STEPS

//@ fn fn fixed_point_forward_options loops=3
//@ rewrite 1 `let state = location_predecessors .into_iter() .fold(None, |s, p| match` => `let mut state_acc: Option<State> = None; for p in it: location_predecessors.into_iter() { let s = state_acc; state_acc = match` ## R-fold: `iter.fold(init, |s, p| BODY)` is by definition `let mut acc = init; for p in iter { let s = acc; acc = BODY; } acc`; the closure body BODY is kept token for token
//@ rewrite 1 `None => s, }); let mut state = analysis.trans(` => `None => s, }; } let state = state_acc; let mut state = analysis.trans(` ## R-fold: closes the loop of the rewritten fold and binds its result to the original name
//@ rewrite 1 `for successor in location.forward()? {` => `let successors__ = location.forward()?; for successor in it2: successors__ {` ## R-let-iter: binds the iterated vector to a name before the loop and names the ghost iterator, so that invariants can mention them; evaluation order and the `?` are unchanged
//@ spec
    requires function.function_wf(), analysis.an_inv(*function), max_analysis_steps < usize::MAX,
    ensures
        /*@no_entry*/ function.control_flow_graph.entry is None ==> r == Err::<HashMap<il::ProgramLocation, State>, Error>(Error::FixedPointRequiresEntry),
        /*@domain*/ r matches Ok(m) ==> fkeys_ok(m@, *function) && solution_domain(*function, true, fview(m@, *function)),
        /*@state_inv*/ r matches Ok(m) ==> lm_inv(&analysis, fview(m@, *function)),
        /*@equations*/ r matches Ok(m) ==> (!force && (analysis.cmp_exact() || analysis.monotone(*function, true))
            ==> solution_eqs(&analysis, *function, true, fview(m@, *function))),
        /*@least*/ r matches Ok(m) ==> (!force && analysis.monotone(*function, true)
            ==> solution_least(&analysis, *function, true, fview(m@, *function))),
        /*@errors*/ r matches Err(e) ==> fp_error(&analysis, *function, true, force, e),
//@ enter
    let ghost f = *function;
    let ghost eqs = !force && (analysis.cmp_exact() || analysis.monotone(f, true));
    let ghost mono = !force && analysis.monotone(f, true);
    let ghost mut li: LMap<State> = |l: Loc| None::<State>;
    proof { Analysis::law_partial_cmp(); }
//@ before 0 `let mut steps = 0;`
    proof {
        assert(start_loc(f, true) is Some);
        let s0 = start_loc(f, true).unwrap();
        assert(queue@ =~= seq![ploc(f, s0)]);
        assert forall|l: Loc| #[trigger] fqueue(queue@, f)(l) <==> Some(l) == start_loc(f, true) by {
            lemma_ploc_inj(f, l, s0);
            if l == s0 { assert(queue@[0] == ploc(f, l)); }
        }
        lemma_inv_init(&analysis, f, true, fview(states@, f), fqueue(queue@, f), li);
    }
//@ loop 0
    invariant
        f == *function, function.function_wf(), analysis.an_inv(f), max_analysis_steps < usize::MAX,
        eqs == (!force && (analysis.cmp_exact() || analysis.monotone(f, true))),
        mono == (!force && analysis.monotone(f, true)),
        <State as vstd::std_specs::cmp::PartialOrdSpec>::obeys_partial_cmp_spec(),
        steps <= max_analysis_steps + 1,
        start_loc(f, true) is Some,
        fkeys_ok(states@, f), fq_ok(queue@, f),
        dom_inv(&analysis, f, true, fview(states@, f), fqueue(queue@, f)),
        eqs ==> eq_inv(&analysis, f, true, fview(states@, f), fqueue(queue@, f)),
        mono ==> asc_inv(&analysis, f, true, fview(states@, f), li) && solution_least(&analysis, f, true, fview(states@, f)),
    decreases max_analysis_steps + 1 - steps,
//@ before 0 `let location = queue.pop_front().unwrap();`
    let ghost q0 = queue@;
    let ghost st = fview(states@, f);
    let ghost inq_old = fqueue(q0, f);
    let ghost x = fl_loc(q0[0].function_location);
    proof {
        lemma_ploc_of(f, q0[0]);
        assert(inq_old(x));
        lemma_queued(&analysis, f, true, st, inq_old, x);
        lemma_valid_applies(f, q0[0].function_location);
    }
//@ before 0 `let location_predecessors = location.backward()?;`
    let ghost inq_rest = fqueue(queue@, f);
    proof {
        assert(queue@ == q0.subrange(1, q0.len() as int));
        lemma_fqueue_pop(q0, f, x);
        assert(location.rpl_wf() && location.loc() == x && *location.function == f);
    }
//@ before 0 `let mut state_acc`
    let ghost pv = location_predecessors@;
    let ghost ps = rpl_locs(pv);
    proof {
        assert((|l2: Loc| pred(*location.function, location.loc(), l2)) =~= (|l2: Loc| pred(f, x, l2)));
        lemma_rpls_inputs(pv, f, true, x, |l2: Loc| pred(f, x, l2));
        lemma_inputs_inv(&analysis, st, ps);
    }
//@ loop 1
    invariant
        it.seq() == pv, ps == rpl_locs(pv), st == fview(states@, f), lm_inv(&analysis, st),
        forall|i: int| 0 <= i < pv.len() ==> *(#[trigger] pv[i]).function == f,
        opt_inv(&analysis, state_acc),
        opt_eqv(&analysis, state_acc, fold_in(&analysis, st, ps, it.index@ as nat)),
//@ before 0 `let s = state_acc;`
    let ghost acc0 = state_acc;
    let ghost i0 = it.index@;
    proof {
        assert(p == pv[i0]);
        assert(ps[i0] == p.loc());
        assert(opt_inv(&analysis, st(ps[i0])));
        lemma_inputs_inv(&analysis, st, ps);
        lemma_fold_inv(&analysis, st, ps, i0 as nat);
    }
//@ after 0 `None => s, };`
    proof {
        let k = ploc(f, ps[i0]);
        let xo = st(ps[i0]);
        if xo is Some && acc0 is None {
            analysis.law_clone(xo.unwrap(), state_acc.unwrap());
        }
        lemma_fold_step_exec(&analysis, acc0, fold_in(&analysis, st, ps, i0 as nat), xo, state_acc);
    }
//@ before 0 `let mut state = analysis.trans(`
    let ghost in_exec = state;
    proof {
        assert(opt_eqv(&analysis, in_exec, in_fold(&analysis, st, ps)));
        lemma_fold_inv(&analysis, st, ps, ps.len());
    }
//@ before 0 `if let Some(in_state) = states.get(&location.clone().into())`
    let ghost v0 = state;
    proof {
        lemma_trans_exec(&analysis, f, true, x, in_exec, in_fold(&analysis, st, ps), v0);
        assert(st(x) == (if states@.contains_key(ploc(f, x)) { Some(states@[ploc(f, x)]) } else { None }));
    }
//@ before 0 `continue;`
    proof {
        if eqs { lemma_equal_case(&analysis, f, true, st, inq_old, li, x, ps, v0); }
        lemma_iter_equal(&analysis, f, true, st, inq_old, inq_rest, x, ps, eqs);
    }
//@ before 0 `return Err(Error::FixedPointOrdering(`
    proof {
        if analysis.monotone(f, true) { lemma_no_ordering_error(&analysis, f, true, st, inq_old, li, x, ps, v0); }
    }
//@ before 0 `states.insert(location.clone().into(), state);`
    let ghost v = state;
    let ghost st2 = lm_upd(st, x, v);
    proof {
        if mono {
            if st(x) is Some { lemma_no_ordering_error(&analysis, f, true, st, inq_old, li, x, ps, v); }
            lemma_iter_insert_mono(&analysis, f, true, st, inq_old, li, x, ps, v);
            li = lm_upd_opt(li, x, in_fold(&analysis, st, ps));
        }
        lemma_fview_insert(states@, f, x, v);
    }
//@ before 0 `for successor in it2: successors__ {`
    let ghost sv = successors__@;
    let ghost locs = rpl_locs(sv);
    proof {
        assert(fview(states@, f) == st2);
        assert((|l2: Loc| succ(*location.function, location.loc(), l2)) =~= (|l2: Loc| succ(f, x, l2)));
        lemma_rpls_steps(sv, f, true, x, |l2: Loc| succ(f, x, l2));
        assert forall|inq_new: LSet| #[trigger] queue_rel(inq_rest, inq_new, locs, locs.len() as int)
            implies q_inv(&analysis, f, true, eqs, st2, inq_new) by {
            assert forall|l: Loc| #![trigger inq_new(l)] #![trigger inq_rest(l)] #![trigger step(f, true, x, l)]
                inq_new(l) <==> (inq_rest(l) || step(f, true, x, l)) by {
                if step(f, true, x, l) { assert(locs.contains(l)); }
                if exists|j: int| 0 <= j < locs.len() && locs[j] == l {
                    let j = choose|j: int| 0 <= j < locs.len() && locs[j] == l;
                    assert(step(f, true, x, sv[j].loc()));
                }
            }
            lemma_iter_insert_dom(&analysis, f, true, st, inq_old, inq_rest, inq_new, x, v);
            if eqs { lemma_iter_insert_eq(&analysis, f, true, st, inq_old, inq_rest, inq_new, x, ps, v); }
        }
        assert(queue_rel(inq_rest, fqueue(queue@, f), locs, 0));
        assert forall|k: ProgramLocation| #[trigger] states@.contains_key(k) implies k.function_index == f.index by { }
    }
//@ loop 2
    invariant
        it2.seq() == sv, locs == rpl_locs(sv), f == *function,
        forall|i: int| 0 <= i < sv.len() ==> *(#[trigger] sv[i]).function == f,
        fq_ok(queue@, f), fkeys_ok(states@, f), fview(states@, f) == st2,
        queue_rel(inq_rest, fqueue(queue@, f), locs, it2.index@),
        forall|inq_new: LSet| #[trigger] queue_rel(inq_rest, inq_new, locs, locs.len() as int) ==> q_inv(&analysis, f, true, eqs, st2, inq_new),
        mono ==> asc_inv(&analysis, f, true, st2, li) && solution_least(&analysis, f, true, st2),
//@ after 0 `for successor in it2: successors__ {`
    proof {
        assert(successor == sv[it2.index@]);
        assert(locs[it2.index@] == successor.loc());
        lemma_fqueue_push(queue@, f, locs[it2.index@]);
        lemma_queue_rel_step(inq_rest, fqueue(queue@, f), fqueue(queue@.push(ploc(f, locs[it2.index@])), f), locs, it2.index@);
    }
//@ before 0 `Ok(states)`
    proof {
        assert forall|l: Loc| !#[trigger] fqueue(queue@, f)(l) by { }
        lemma_final(&analysis, f, true, fview(states@, f), fqueue(queue@, f), eqs);
    }
//@ end

//@ fn fn fixed_point_forward
//@ spec
    requires function.function_wf(), analysis.an_inv(*function),
    ensures
        /*@no_entry*/ function.control_flow_graph.entry is None ==> r == Err::<HashMap<il::ProgramLocation, State>, Error>(Error::FixedPointRequiresEntry),
        /*@domain*/ r matches Ok(m) ==> fkeys_ok(m@, *function) && solution_domain(*function, true, fview(m@, *function)),
        /*@state_inv*/ r matches Ok(m) ==> lm_inv(&analysis, fview(m@, *function)),
        /*@equations*/ r matches Ok(m) ==> (analysis.cmp_exact() || analysis.monotone(*function, true)
            ==> solution_eqs(&analysis, *function, true, fview(m@, *function))),
        /*@least*/ r matches Ok(m) ==> (analysis.monotone(*function, true)
            ==> solution_least(&analysis, *function, true, fview(m@, *function))),
        /*@errors*/ r matches Err(e) ==> fp_error(&analysis, *function, true, false, e),
//@ end
