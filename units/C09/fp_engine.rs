// ======================================================================================
// units/C09/fp_engine.rs - the forward solver of lib/analysis/fixed_point.rs under contract:
// fixed_point_forward_options, fixed_point_forward.
// The work-list invariants and one lemma per engine step are in units/C09/fp_theory.rs; this file
// only ties the concrete data (HashMap<ProgramLocation, State>, VecDeque<ProgramLocation>) to
// the abstract maps / sets of the theory.
// ======================================================================================
broadcast use {location_hash::axiom_program_location_obeys_key_model, vstd::std_specs::hash::axiom_random_state_builds_valid_hashers};

/// the owned form of location `l` of function `f` (what `RefProgramLocation::into()` yields)
pub open spec fn ploc(f: Function, l: Loc) -> ProgramLocation {
    ProgramLocation { function_index: f.index, function_location: loc_fl(l) }
}

/// the abstract solution a `HashMap<ProgramLocation, State>` denotes for function `f`
pub open spec fn fview<S>(m: Map<ProgramLocation, S>, f: Function) -> LMap<S> {
    |l: Loc| if m.contains_key(ploc(f, l)) { Some(m[ploc(f, l)]) } else { None }
}

/// every key is a location of function `f` (carries f's function index)
pub open spec fn fkeys_ok<S>(m: Map<ProgramLocation, S>, f: Function) -> bool {
    forall|k: ProgramLocation| #[trigger] m.contains_key(k) ==> k.function_index == f.index
}

/// the abstract work list
pub open spec fn fqueue(q: Seq<ProgramLocation>, f: Function) -> LSet {
    |l: Loc| q.contains(ploc(f, l))
}

pub open spec fn fq_ok(q: Seq<ProgramLocation>, f: Function) -> bool {
    forall|i: int| 0 <= i < q.len() ==> (#[trigger] q[i]).function_index == f.index
}

pub proof fn lemma_ploc_inj(f: Function, l: Loc, x: Loc)
    ensures (ploc(f, l) == ploc(f, x)) <==> l == x, fl_loc(loc_fl(l)) == l,
{
}

pub proof fn lemma_ploc_of(f: Function, k: ProgramLocation)
    requires k.function_index == f.index,
    ensures k == ploc(f, fl_loc(k.function_location)),
{
}

pub proof fn lemma_fview_insert<S>(m: Map<ProgramLocation, S>, f: Function, x: Loc, v: S)
    ensures fview(m.insert(ploc(f, x), v), f) == lm_upd(fview(m, f), x, v),
{
    assert forall|l: Loc| #[trigger] fview(m.insert(ploc(f, x), v), f)(l) == lm_upd(fview(m, f), x, v)(l) by {
        lemma_ploc_inj(f, l, x);
    }
    assert(fview(m.insert(ploc(f, x), v), f) =~= lm_upd(fview(m, f), x, v));
}

pub proof fn lemma_fqueue_pop(q: Seq<ProgramLocation>, f: Function, x: Loc)
    requires q.len() > 0, q[0] == ploc(f, x),
    ensures forall|l: Loc| #![trigger fqueue(q, f)(l)] #![trigger fqueue(q.subrange(1, q.len() as int), f)(l)]
        fqueue(q, f)(l) <==> (l == x || fqueue(q.subrange(1, q.len() as int), f)(l)),
{
    let r = q.subrange(1, q.len() as int);
    let a = fqueue(q, f);
    let b = fqueue(r, f);
    assert forall|l: Loc| #![trigger a(l)] #![trigger b(l)] a(l) <==> (l == x || b(l)) by {
        lemma_ploc_inj(f, l, x);
        let k = ploc(f, l);
        if q.contains(k) {
            let i = choose|i: int| 0 <= i < q.len() && q[i] == k;
            if i > 0 { assert(r[i - 1] == k); }
        }
        if r.contains(k) {
            let i = choose|i: int| 0 <= i < r.len() && r[i] == k;
            assert(q[i + 1] == k);
        }
    }
}

/// abstract locations of a list of borrowed program locations
pub open spec fn rpl_locs(v: Seq<RefProgramLocation>) -> Seq<Loc> {
    Seq::new(v.len(), |i: int| v[i].loc())
}

/// what `backward()` (forward analysis) / `forward()` (backward analysis) returns lists the inputs
pub proof fn lemma_rpls_inputs(v: Seq<RefProgramLocation>, f: Function, fwd: bool, x: Loc, sel: spec_fn(Loc) -> bool)
    requires lists_rpls(v, f, sel), forall|l: Loc| #![trigger sel(l)] sel(l) <==> input_of(f, fwd, x, l),
    ensures
        lists_inputs(f, fwd, x, rpl_locs(v)),
        forall|i: int| 0 <= i < v.len() ==> *(#[trigger] v[i]).function == f && rfl_in(f, v[i].function_location),
{
    let ps = rpl_locs(v);
    assert forall|i: int| 0 <= i < ps.len() implies input_of(f, fwd, x, #[trigger] ps[i]) by {
        assert(sel(loc_of(v[i].function_location)));
    }
    assert forall|i: int, j: int| 0 <= i < j < ps.len() implies #[trigger] ps[i] != #[trigger] ps[j] by {
        assert(loc_of(v[i].function_location) != loc_of(v[j].function_location));
    }
    assert forall|p: Loc| #[trigger] input_of(f, fwd, x, p) implies ps.contains(p) by {
        assert(sel(p));
        let i = choose|i: int| 0 <= i < v.len() && loc_of((#[trigger] v[i]).function_location) == p;
        assert(ps[i] == p);
    }
}

/// what `forward()` (forward analysis) / `backward()` (backward analysis) returns lists the followers
pub proof fn lemma_rpls_steps(v: Seq<RefProgramLocation>, f: Function, fwd: bool, x: Loc, sel: spec_fn(Loc) -> bool)
    requires lists_rpls(v, f, sel), forall|l: Loc| #![trigger sel(l)] sel(l) <==> step(f, fwd, x, l),
    ensures
        forall|i: int| 0 <= i < v.len() ==> *(#[trigger] v[i]).function == f && rfl_in(f, v[i].function_location) && step(f, fwd, x, v[i].loc()),
        forall|l: Loc| #[trigger] step(f, fwd, x, l) ==> rpl_locs(v).contains(l),
{
    let ps = rpl_locs(v);
    assert forall|i: int| 0 <= i < v.len() implies step(f, fwd, x, (#[trigger] v[i]).loc()) by {
        assert(sel(loc_of(v[i].function_location)));
    }
    assert forall|l: Loc| #[trigger] step(f, fwd, x, l) implies ps.contains(l) by {
        assert(sel(l));
        let i = choose|i: int| 0 <= i < v.len() && loc_of((#[trigger] v[i]).function_location) == l;
        assert(ps[i] == l);
    }
}

/// a valid location can be applied to its function
pub proof fn lemma_valid_applies(f: Function, fl: FunctionLocation)
    requires loc_valid(f, fl_loc(fl)),
    ensures fl_applies(f, fl),
{
}

/// order-equivalence of optional states
pub open spec fn opt_eqv<'f, S: 'f + Clone + Debug + PartialOrd, A: FixedPointAnalysis<'f, S>>(a: &A, x: Option<S>, y: Option<S>) -> bool {
    opt_le(a, x, y) && opt_le(a, y, x)
}

/// one executed step of the predecessor fold computes (up to order-equivalence) one step of the spec fold
pub proof fn lemma_fold_step_exec<'f, S: 'f + Clone + Debug + PartialOrd, A: FixedPointAnalysis<'f, S>>(a: &A, acc_exec: Option<S>, acc_spec: Option<S>, x: Option<S>, r: Option<S>)
    requires
        opt_inv(a, acc_exec), opt_inv(a, acc_spec), opt_inv(a, x), opt_eqv(a, acc_exec, acc_spec),
        match x {
            Some(xs) => r matches Some(rv) && a.st_inv(rv) && match acc_exec {
                Some(s) => eqv(a, rv, a.join_spec(s, xs)),
                None => eqv(a, rv, xs),
            },
            None => r == acc_exec,
        },
    ensures opt_inv(a, r), opt_eqv(a, r, fold_step(a, acc_spec, x)),
{
    lemma_opt_le_refl(a, x);
    lemma_fold_step_mono(a, acc_exec, x, acc_spec, x);
    lemma_fold_step_mono(a, acc_spec, x, acc_exec, x);
    let e = fold_step(a, acc_exec, x);
    let s = fold_step(a, acc_spec, x);
    if x is Some {
        let rv = r.unwrap();
        a.law_le_trans(rv, e.unwrap(), s.unwrap());
        a.law_le_trans(s.unwrap(), e.unwrap(), rv);
    }
}

/// the executed transfer computes (up to order-equivalence) the transfer of the spec in-state
pub proof fn lemma_trans_exec<'f, S: 'f + Clone + Debug + PartialOrd, A: FixedPointAnalysis<'f, S>>(a: &A, f: Function, fwd: bool, x: Loc, in_exec: Option<S>, in_spec: Option<S>, v: S)
    requires
        a.an_inv(f), f.function_wf(), fp_closure(f, fwd, x),
        opt_inv(a, in_exec), opt_inv(a, in_spec), opt_eqv(a, in_exec, in_spec),
        a.st_inv(v), eqv(a, v, a.trans_spec(f, x, in_exec)),
    ensures eqv(a, v, a.trans_spec(f, x, in_spec)),
{
    a.law_trans_inv(f, fwd, x, in_exec);
    a.law_trans_inv(f, fwd, x, in_spec);
    if in_exec is Some {
        a.law_trans_cong(f, fwd, x, in_exec.unwrap(), in_spec.unwrap());
        a.law_trans_cong(f, fwd, x, in_spec.unwrap(), in_exec.unwrap());
        a.law_le_trans(v, a.trans_spec(f, x, in_exec), a.trans_spec(f, x, in_spec));
        a.law_le_trans(a.trans_spec(f, x, in_spec), a.trans_spec(f, x, in_exec), v);
    }
}

/// the errors the solver may return
pub open spec fn fp_error<'f, S: 'f + Clone + Debug + PartialOrd, A: FixedPointAnalysis<'f, S>>(a: &A, f: Function, fwd: bool, force: bool, e: Error) -> bool {
    ||| start_loc(f, fwd) is None && e == (if fwd { Error::FixedPointRequiresEntry } else { Error::FixedPointRequiresExit })
    ||| start_loc(f, fwd) is Some && fwd && e == Error::FixedPointMaxSteps
    ||| start_loc(f, fwd) is Some && trans_failed(a, f, fwd, e)
    ||| start_loc(f, fwd) is Some && !force && !a.monotone(f, fwd) && e is FixedPointOrdering
}

/// `e` is an error `trans` returned at a location of the closure
pub open spec fn trans_failed<'f, S: 'f + Clone + Debug + PartialOrd, A: FixedPointAnalysis<'f, S>>(a: &A, f: Function, fwd: bool, e: Error) -> bool {
    exists|l: Loc, s: Option<S>| fp_closure(f, fwd, l) && opt_inv(a, s) && #[trigger] a.trans_err(f, l, s, e)
}

/// the state of the popped location after the `Equal => continue` arm satisfies its equation
pub proof fn lemma_equal_case<'f, S: 'f + Clone + Debug + PartialOrd, A: FixedPointAnalysis<'f, S>>(a: &A, f: Function, fwd: bool, st: LMap<S>, inq: LSet, li: LMap<S>,
        x: Loc, ps: Seq<Loc>, v: S)
    requires
        f.function_wf(), a.an_inv(f),
        a.cmp_exact() || a.monotone(f, fwd),
        dom_inv(a, f, fwd, st, inq), inq(x), st(x) is Some,
        a.monotone(f, fwd) ==> asc_inv(a, f, fwd, st, li),
        lists_inputs(f, fwd, x, ps),
        a.st_inv(v), eqv(a, v, a.trans_spec(f, x, in_fold(a, st, ps))),
        vstd::std_specs::cmp::PartialOrdSpec::partial_cmp_spec(&v, &st(x).unwrap()) == Some(core::cmp::Ordering::Equal),
    ensures eqv(a, st(x).unwrap(), a.trans_spec(f, x, in_fold(a, st, ps))),
{
    let old = st(x).unwrap();
    lemma_queued(a, f, fwd, st, inq, x);
    assert(opt_inv(a, st(x)));
    lemma_inputs_inv(a, st, ps);
    lemma_fold_inv(a, st, ps, ps.len());
    let tv = a.trans_spec(f, x, in_fold(a, st, ps));
    a.law_trans_inv(f, fwd, x, in_fold(a, st, ps));
    if a.monotone(f, fwd) {
        lemma_recomputed_above(a, f, fwd, st, inq, li, x, ps, v);
        a.law_cmp_equal(f, fwd, v, old);
    } else {
        a.law_cmp_exact(v, old);
    }
    a.law_le_trans(old, v, tv);
    a.law_le_trans(tv, v, old);
}

/// a monotone analysis never reaches the FixedPointOrdering error
pub proof fn lemma_no_ordering_error<'f, S: 'f + Clone + Debug + PartialOrd, A: FixedPointAnalysis<'f, S>>(a: &A, f: Function, fwd: bool, st: LMap<S>, inq: LSet, li: LMap<S>,
        x: Loc, ps: Seq<Loc>, v: S)
    requires
        f.function_wf(), a.an_inv(f), a.monotone(f, fwd),
        dom_inv(a, f, fwd, st, inq), inq(x), st(x) is Some,
        asc_inv(a, f, fwd, st, li),
        lists_inputs(f, fwd, x, ps),
        a.st_inv(v), eqv(a, v, a.trans_spec(f, x, in_fold(a, st, ps))),
    ensures
        a.le(st(x).unwrap(), v),
        vstd::std_specs::cmp::PartialOrdSpec::partial_cmp_spec(&v, &st(x).unwrap()) == Some(core::cmp::Ordering::Equal)
            || vstd::std_specs::cmp::PartialOrdSpec::partial_cmp_spec(&v, &st(x).unwrap()) == Some(core::cmp::Ordering::Greater),
{
    lemma_queued(a, f, fwd, st, inq, x);
    assert(opt_inv(a, st(x)));
    lemma_recomputed_above(a, f, fwd, st, inq, li, x, ps, v);
    a.law_cmp_ascending(f, fwd, v, st(x).unwrap());
}

/// the queue-dependent part of the work-list invariant
pub open spec fn q_inv<'f, S: 'f + Clone + Debug + PartialOrd, A: FixedPointAnalysis<'f, S>>(a: &A, f: Function, fwd: bool, eqs: bool, st: LMap<S>, inq: LSet) -> bool {
    dom_inv(a, f, fwd, st, inq) && (eqs ==> eq_inv(a, f, fwd, st, inq))
}

/// the work list after enqueuing the first `n` listed followers: the rest of the old queue plus those followers
pub open spec fn queue_rel(inq_rest: LSet, inq_new: LSet, locs: Seq<Loc>, n: int) -> bool {
    forall|l: Loc| #![trigger inq_new(l)] inq_new(l) <==> (inq_rest(l) || exists|j: int| 0 <= j < n && locs[j] == l)
}

/// one iteration of the enqueue loop, whether or not the follower is pushed
pub proof fn lemma_queue_rel_push(f: Function, inq_rest: LSet, q: Seq<ProgramLocation>, locs: Seq<Loc>, n: int)
    requires queue_rel(inq_rest, fqueue(q, f), locs, n), 0 <= n < locs.len(),
    ensures
        q.contains(ploc(f, locs[n])) ==> queue_rel(inq_rest, fqueue(q, f), locs, n + 1),
        queue_rel(inq_rest, fqueue(q.push(ploc(f, locs[n])), f), locs, n + 1),
        fq_ok(q, f) ==> fq_ok(q.push(ploc(f, locs[n])), f),
{
    let k = ploc(f, locs[n]);
    let q2 = q.push(k);
    let a = fqueue(q, f);
    let b = fqueue(q2, f);
    assert forall|l: Loc| #![trigger b(l)] b(l) <==> (inq_rest(l) || exists|j: int| 0 <= j < n + 1 && locs[j] == l) by {
        lemma_ploc_inj(f, l, locs[n]);
        assert(a(l) <==> (inq_rest(l) || exists|j: int| 0 <= j < n && locs[j] == l));
        if q2.contains(ploc(f, l)) {
            let i = choose|i: int| 0 <= i < q2.len() && q2[i] == ploc(f, l);
            if i < q.len() { assert(q[i] == ploc(f, l)); }
        }
        if q.contains(ploc(f, l)) {
            let i = choose|i: int| 0 <= i < q.len() && q[i] == ploc(f, l);
            assert(q2[i] == ploc(f, l));
        }
        if l == locs[n] { assert(q2[q.len() as int] == k); }
    }
    if q.contains(k) {
        assert forall|l: Loc| #![trigger a(l)] a(l) <==> (inq_rest(l) || exists|j: int| 0 <= j < n + 1 && locs[j] == l) by {
            assert(a(l) <==> (inq_rest(l) || exists|j: int| 0 <= j < n && locs[j] == l));
        }
    }
}

//@ source lib/analysis/fixed_point.rs
//@ item const DEFAULT_MAX_ANALYSIS_STEPS

//@ fn fn fixed_point_forward_options loops=3
//@ rewrite 1 `let state = location_predecessors .into_iter() .fold(None, |s, p| match` => `let mut state_acc: Option<State> = None; for p in it: location_predecessors.into_iter() { let s = state_acc; state_acc = match` ## R-fold: `iter.fold(init, |s, p| BODY)` is by definition `let mut acc = init; for p in iter { let s = acc; acc = BODY; } acc`; the closure body BODY is kept token for token
//@ rewrite 1 `None => s, }); let mut state = analysis.trans(` => `None => s, }; } let state = state_acc; let mut state = analysis.trans(` ## R-fold: closes the loop of the rewritten fold and binds its result to the original name
//@ rewrite 1 `for successor in location.forward()? {` => `let successors__ = location.forward()?; for successor in it2: successors__ {` ## R-let-iter: binds the iterated vector to a name before the loop and names the ghost iterator, so that invariants can mention them; evaluation order and the `?` are unchanged
//@ spec
    requires function.function_wf(), analysis.an_inv(*function), max_analysis_steps < usize::MAX,
    ensures
        /*@no_entry*/ function.control_flow_graph.entry is None ==> r == Err::<HashMap<il::ProgramLocation, State>, Error>(Error::FixedPointRequiresEntry),
        /*@domain*/ r matches Ok(m) ==> fkeys_ok(m@, *function) && solution_domain(*function, true, fview(m@, *function)),
        /*@state_inv*/ r matches Ok(m) ==> lm_inv(&analysis, fview(m@, *function)),
        /*@equations*/ r matches Ok(m) ==> (!force && (analysis.cmp_exact() || analysis.monotone(*function, true))
            ==> solution_eqs(&analysis, *function, true, fview(m@, *function))),
        /*@least*/ r matches Ok(m) ==> (!force && analysis.monotone(*function, true)
            ==> solution_least(&analysis, *function, true, fview(m@, *function))),
        /*@errors*/ r matches Err(e) ==> fp_error(&analysis, *function, true, force, e),
//@ enter
    let ghost f = *function;
    let ghost eqs = !force && (analysis.cmp_exact() || analysis.monotone(f, true));
    let ghost mono = !force && analysis.monotone(f, true);
    let ghost mut li: LMap<State> = |l: Loc| None::<State>;
    proof { Analysis::law_partial_cmp(); }
//@ before 0 `let mut steps = 0;`
    proof {
        assert(start_loc(f, true) is Some);
        let s0 = start_loc(f, true).unwrap();
        assert(queue@ =~= seq![ploc(f, s0)]);
        assert forall|l: Loc| #[trigger] fqueue(queue@, f)(l) <==> Some(l) == start_loc(f, true) by {
            lemma_ploc_inj(f, l, s0);
            if l == s0 { assert(queue@[0] == ploc(f, l)); }
        }
        lemma_inv_init(&analysis, f, true, fview(states@, f), fqueue(queue@, f), li);
    }
//@ loop 0
    invariant
        f == *function, function.function_wf(), analysis.an_inv(f), max_analysis_steps < usize::MAX,
        eqs == (!force && (analysis.cmp_exact() || analysis.monotone(f, true))),
        mono == (!force && analysis.monotone(f, true)),
        <State as vstd::std_specs::cmp::PartialOrdSpec>::obeys_partial_cmp_spec(),
        steps <= max_analysis_steps + 1,
        start_loc(f, true) is Some,
        fkeys_ok(states@, f), fq_ok(queue@, f),
        dom_inv(&analysis, f, true, fview(states@, f), fqueue(queue@, f)),
        eqs ==> eq_inv(&analysis, f, true, fview(states@, f), fqueue(queue@, f)),
        mono ==> asc_inv(&analysis, f, true, fview(states@, f), li) && solution_least(&analysis, f, true, fview(states@, f)),
    decreases max_analysis_steps + 1 - steps,
//@ before 0 `let location = queue.pop_front().unwrap();`
    let ghost q0 = queue@;
    let ghost st = fview(states@, f);
    let ghost inq_old = fqueue(q0, f);
    let ghost x = fl_loc(q0[0].function_location);
    proof {
        lemma_ploc_of(f, q0[0]);
        assert(inq_old(x));
        lemma_queued(&analysis, f, true, st, inq_old, x);
        lemma_valid_applies(f, q0[0].function_location);
    }
//@ before 0 `let location_predecessors = location.backward()?;`
    let ghost inq_rest = fqueue(queue@, f);
    proof {
        assert(queue@ == q0.subrange(1, q0.len() as int));
        lemma_fqueue_pop(q0, f, x);
        assert(location.rpl_wf() && location.loc() == x && *location.function == f);
    }
//@ before 0 `let mut state_acc`
    let ghost pv = location_predecessors@;
    let ghost ps = rpl_locs(pv);
    proof {
        assert((|l2: Loc| pred(*location.function, location.loc(), l2)) =~= (|l2: Loc| pred(f, x, l2)));
        lemma_rpls_inputs(pv, f, true, x, |l2: Loc| pred(f, x, l2));
        lemma_inputs_inv(&analysis, st, ps);
    }
//@ loop 1
    invariant
        it.seq() == pv, ps == rpl_locs(pv), st == fview(states@, f), lm_inv(&analysis, st),
        forall|i: int| 0 <= i < pv.len() ==> *(#[trigger] pv[i]).function == f,
        opt_inv(&analysis, state_acc),
        opt_eqv(&analysis, state_acc, fold_in(&analysis, st, ps, it.index@ as nat)),
//@ before 0 `let s = state_acc;`
    let ghost acc0 = state_acc;
    let ghost i0 = it.index@;
    proof {
        assert(p == pv[i0]);
        assert(ps[i0] == p.loc());
        assert(opt_inv(&analysis, st(ps[i0])));
        lemma_inputs_inv(&analysis, st, ps);
        lemma_fold_inv(&analysis, st, ps, i0 as nat);
    }
//@ after 0 `None => s, };`
    proof {
        let k = ploc(f, ps[i0]);
        let xo = st(ps[i0]);
        if xo is Some && acc0 is None {
            analysis.law_clone(xo.unwrap(), state_acc.unwrap());
        }
        lemma_fold_step_exec(&analysis, acc0, fold_in(&analysis, st, ps, i0 as nat), xo, state_acc);
    }
//@ before 0 `let mut state = analysis.trans(`
    let ghost in_exec = state;
    proof {
        assert(opt_eqv(&analysis, in_exec, in_fold(&analysis, st, ps)));
        lemma_fold_inv(&analysis, st, ps, ps.len());
    }
//@ before 0 `if let Some(in_state) = states.get(&location.clone().into())`
    let ghost v0 = state;
    proof {
        lemma_trans_exec(&analysis, f, true, x, in_exec, in_fold(&analysis, st, ps), v0);
        assert(st(x) == (if states@.contains_key(ploc(f, x)) { Some(states@[ploc(f, x)]) } else { None }));
    }
//@ before 0 `continue;`
    proof {
        if eqs { lemma_equal_case(&analysis, f, true, st, inq_old, li, x, ps, v0); }
        lemma_iter_equal(&analysis, f, true, st, inq_old, inq_rest, x, ps, eqs);
    }
//@ before 0 `return Err(Error::FixedPointOrdering(`
    proof {
        if analysis.monotone(f, true) { lemma_no_ordering_error(&analysis, f, true, st, inq_old, li, x, ps, v0); }
    }
//@ before 0 `states.insert(location.clone().into(), state);`
    let ghost v = state;
    let ghost st2 = lm_upd(st, x, v);
    proof {
        if mono {
            if st(x) is Some { lemma_no_ordering_error(&analysis, f, true, st, inq_old, li, x, ps, v); }
            lemma_iter_insert_mono(&analysis, f, true, st, inq_old, li, x, ps, v);
            li = lm_upd_opt(li, x, in_fold(&analysis, st, ps));
        }
        lemma_fview_insert(states@, f, x, v);
    }
//@ before 0 `for successor in it2: successors__ {`
    let ghost sv = successors__@;
    let ghost locs = rpl_locs(sv);
    proof {
        assert(fview(states@, f) == st2);
        assert((|l2: Loc| succ(*location.function, location.loc(), l2)) =~= (|l2: Loc| succ(f, x, l2)));
        lemma_rpls_steps(sv, f, true, x, |l2: Loc| succ(f, x, l2));
        assert forall|inq_new: LSet| #[trigger] queue_rel(inq_rest, inq_new, locs, locs.len() as int)
            implies q_inv(&analysis, f, true, eqs, st2, inq_new) by {
            assert forall|l: Loc| #![trigger inq_new(l)] #![trigger inq_rest(l)] #![trigger step(f, true, x, l)]
                inq_new(l) <==> (inq_rest(l) || step(f, true, x, l)) by {
                if step(f, true, x, l) { assert(locs.contains(l)); }
                if exists|j: int| 0 <= j < locs.len() && locs[j] == l {
                    let j = choose|j: int| 0 <= j < locs.len() && locs[j] == l;
                    assert(step(f, true, x, sv[j].loc()));
                }
            }
            lemma_iter_insert_dom(&analysis, f, true, st, inq_old, inq_rest, inq_new, x, v);
            if eqs { lemma_iter_insert_eq(&analysis, f, true, st, inq_old, inq_rest, inq_new, x, ps, v); }
        }
        assert(queue_rel(inq_rest, fqueue(queue@, f), locs, 0));
        assert forall|k: ProgramLocation| #[trigger] states@.contains_key(k) implies k.function_index == f.index by { }
    }
//@ loop 2
    invariant
        it2.seq() == sv, locs == rpl_locs(sv), f == *function,
        forall|i: int| 0 <= i < sv.len() ==> *(#[trigger] sv[i]).function == f,
        fq_ok(queue@, f), fkeys_ok(states@, f), fview(states@, f) == st2,
        queue_rel(inq_rest, fqueue(queue@, f), locs, it2.index@),
        forall|inq_new: LSet| #[trigger] queue_rel(inq_rest, inq_new, locs, locs.len() as int) ==> q_inv(&analysis, f, true, eqs, st2, inq_new),
        mono ==> asc_inv(&analysis, f, true, st2, li) && solution_least(&analysis, f, true, st2),
//@ after 0 `for successor in it2: successors__ {`
    proof {
        assert(successor == sv[it2.index@]);
        assert(locs[it2.index@] == successor.loc());
        lemma_queue_rel_push(f, inq_rest, queue@, locs, it2.index@);
    }
//@ before 0 `Ok(states)`
    proof {
        assert forall|l: Loc| !#[trigger] fqueue(queue@, f)(l) by { }
        lemma_final(&analysis, f, true, fview(states@, f), fqueue(queue@, f), eqs);
    }
//@ end

//@ fn fn fixed_point_forward
//@ spec
    requires function.function_wf(), analysis.an_inv(*function),
    ensures
        /*@no_entry*/ function.control_flow_graph.entry is None ==> r == Err::<HashMap<il::ProgramLocation, State>, Error>(Error::FixedPointRequiresEntry),
        /*@domain*/ r matches Ok(m) ==> fkeys_ok(m@, *function) && solution_domain(*function, true, fview(m@, *function)),
        /*@state_inv*/ r matches Ok(m) ==> lm_inv(&analysis, fview(m@, *function)),
        /*@equations*/ r matches Ok(m) ==> (analysis.cmp_exact() || analysis.monotone(*function, true)
            ==> solution_eqs(&analysis, *function, true, fview(m@, *function))),
        /*@least*/ r matches Ok(m) ==> (analysis.monotone(*function, true)
            ==> solution_least(&analysis, *function, true, fview(m@, *function))),
        /*@errors*/ r matches Err(e) ==> fp_error(&analysis, *function, true, false, e),
//@ end
