broadcast use {location_hash::axiom_program_location_obeys_key_model, location_hash::axiom_ref_program_location_obeys_key_model};

//@ source lib/analysis/fixed_point.rs
//@ item const DEFAULT_MAX_ANALYSIS_STEPS

//@ fn fn fixed_point_forward_options
//@ rewrite 1 `let state = location_predecessors .into_iter() .fold(None, |s, p| match` => `let mut state_acc: Option<State> = None; for p in it: location_predecessors.into_iter() { let s = state_acc; state_acc = match` ## R-fold: `iter.fold(init, |s, p| BODY)` is by definition `let mut acc = init; for p in iter { let s = acc; acc = BODY; } acc`; the closure body BODY is kept token for token
//@ rewrite 1 `None => s, }); let mut state = analysis.trans(` => `None => s, }; } let state = state_acc; let mut state = analysis.trans(` ## R-fold: closes the loop of the rewritten fold and binds its result to the original name
//@ spec
    requires function.function_wf(), analysis.an_inv(*function), max_analysis_steps < usize::MAX,
//@ loop 0
    invariant true,
    decreases max_analysis_steps + 1 - steps,
//@ end
