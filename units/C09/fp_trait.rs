// ======================================================================================
// units/C09/fp_trait.rs - the contract of trait analysis::fixed_point::FixedPointAnalysis
// (lib/analysis/fixed_point.rs).  THE INTERFACE the analyses (reaching definitions, constants,
// stack-pointer offsets) implement and discharge; see units/C09/PHASE1_DONE for the readable form.
// To be included inside a module that has `use super::*; use super::il::*; use std::fmt::Debug;`
// AFTER units/C15/il_core.rs + units/C18/loc_core.rs (the `Loc` vocabulary).
//
// The trait item is the REAL one (extracted); three logged rewrites add the ghost members in
// front of `fn trans`, and the contracts of `trans` / `join` behind their (unchanged) signatures.
// States are compared ONLY through the implementor's order `le` (never with spec `==`), so a
// State may wrap std collections.
// ======================================================================================

// ---------------------------------------------------------------------------------------------
// direction vocabulary (forward analysis: fwd == true; backward analysis: fwd == false)

/// the exit location of a function: the last instruction of the exit block, or its EmptyBlock
/// location when it has no instructions (mirror image of C18's `entry_loc`)
pub open spec fn exit_loc(f: Function) -> Option<Loc> {
    let cfg = f.control_flow_graph;
    match cfg.exit {
        None => None,
        Some(e) =>
            if !cfg.has_block(e) { None }
            else if cfg.blocks_view()[e].instructions@.len() == 0 { Some(Loc::EmptyBlock(e)) }
            else { Some(Loc::Instruction(e, cfg.blocks_view()[e].instructions@.last().index)) },
    }
}

/// where the solver starts: the entry location (forward) / the exit location (backward)
pub open spec fn start_loc(f: Function, fwd: bool) -> Option<Loc> {
    if fwd { entry_loc(f) } else { exit_loc(f) }
}

/// one step in the direction of the analysis: `l2` is a successor (forward) / predecessor (backward) of `l`
pub open spec fn step(f: Function, fwd: bool, l: Loc, l2: Loc) -> bool {
    if fwd { succ(f, l, l2) } else { pred(f, l, l2) }
}

/// `p` is an INPUT of `l`: a predecessor (forward analysis) / a successor (backward analysis)
pub open spec fn input_of(f: Function, fwd: bool, l: Loc, p: Loc) -> bool {
    if fwd { pred(f, l, p) } else { succ(f, l, p) }
}

/// `p` is a walk of the analysis: consecutive locations are related by `step`
pub open spec fn fp_walk(f: Function, fwd: bool, p: Seq<Loc>) -> bool {
    p.len() > 0 && forall|i: int| 0 <= i < p.len() - 1 ==> step(f, fwd, #[trigger] p[i], p[i + 1])
}

/// THE DOMAIN of the solution: the closure of the start location under `step` - the locations `l` for
/// which there is a walk start = p[0] -> p[1] -> ... -> l (forward: the locations reachable from the
/// entry location; backward: those from which the exit location is reachable)
#[verifier::opaque]
pub open spec fn fp_closure(f: Function, fwd: bool, l: Loc) -> bool {
    exists|p: Seq<Loc>| #[trigger] fp_walk(f, fwd, p) && Some(p[0]) == start_loc(f, fwd) && p.last() == l
}

//@ source lib/analysis/fixed_point.rs
//@ itemx trait FixedPointAnalysis
//@ rewrite 1 `fn trans(` => `spec fn an_inv(&self, f: Function) -> bool; spec fn st_inv(&self, s: State) -> bool; spec fn le(&self, a: State, b: State) -> bool; spec fn trans_spec(&self, f: Function, l: Loc, s: Option<State>) -> State; spec fn trans_err(&self, f: Function, l: Loc, s: Option<State>, e: Error) -> bool; spec fn join_spec(&self, a: State, b: State) -> State; spec fn cmp_exact(&self) -> bool; spec fn monotone(&self, f: Function, fwd: bool) -> bool; proof fn law_partial_cmp() ensures <State as vstd::std_specs::cmp::PartialOrdSpec>::obeys_partial_cmp_spec(); proof fn law_clone(&self, a: State, b: State) requires cloned(a, b), self.st_inv(a) ensures self.st_inv(b), self.le(a, b), self.le(b, a); proof fn law_le_refl(&self, a: State) requires self.st_inv(a) ensures self.le(a, a); proof fn law_le_trans(&self, a: State, b: State, c: State) requires self.st_inv(a), self.st_inv(b), self.st_inv(c), self.le(a, b), self.le(b, c) ensures self.le(a, c); proof fn law_join_inv(&self, a: State, b: State) requires self.st_inv(a), self.st_inv(b) ensures self.st_inv(self.join_spec(a, b)); proof fn law_join_ub(&self, a: State, b: State) requires self.st_inv(a), self.st_inv(b) ensures self.le(a, self.join_spec(a, b)), self.le(b, self.join_spec(a, b)); proof fn law_join_least(&self, a: State, b: State, c: State) requires self.st_inv(a), self.st_inv(b), self.st_inv(c), self.le(a, c), self.le(b, c) ensures self.le(self.join_spec(a, b), c); proof fn law_trans_inv(&self, f: Function, fwd: bool, l: Loc, s: Option<State>) requires self.an_inv(f), f.function_wf(), fp_closure(f, fwd, l), s matches Some(x) ==> self.st_inv(x) ensures self.st_inv(self.trans_spec(f, l, s)); proof fn law_trans_cong(&self, f: Function, fwd: bool, l: Loc, s1: State, s2: State) requires self.an_inv(f), f.function_wf(), fp_closure(f, fwd, l), self.st_inv(s1), self.st_inv(s2), self.le(s1, s2), self.le(s2, s1) ensures self.le(self.trans_spec(f, l, Some(s1)), self.trans_spec(f, l, Some(s2))); proof fn law_cmp_exact(&self, new: State, old: State) requires self.cmp_exact(), self.st_inv(new), self.st_inv(old), vstd::std_specs::cmp::PartialOrdSpec::partial_cmp_spec(&new, &old) == Some(core::cmp::Ordering::Equal) ensures self.le(new, old), self.le(old, new); proof fn law_trans_mono(&self, f: Function, fwd: bool, l: Loc, s1: Option<State>, s2: Option<State>) requires self.monotone(f, fwd), self.an_inv(f), f.function_wf(), fp_closure(f, fwd, l), s1 matches Some(x) ==> self.st_inv(x), s2 matches Some(x) ==> self.st_inv(x), s1 matches Some(x1) ==> (s2 matches Some(x2) && self.le(x1, x2)), (s1 is None && s2 is Some) ==> (start_loc(f, fwd) == Some(l) && exists|p: Loc| #[trigger] input_of(f, fwd, l, p)) ensures self.le(self.trans_spec(f, l, s1), self.trans_spec(f, l, s2)); proof fn law_cmp_equal(&self, f: Function, fwd: bool, new: State, old: State) requires self.monotone(f, fwd), self.st_inv(new), self.st_inv(old), self.le(old, new), vstd::std_specs::cmp::PartialOrdSpec::partial_cmp_spec(&new, &old) == Some(core::cmp::Ordering::Equal) ensures self.le(new, old); proof fn law_cmp_ascending(&self, f: Function, fwd: bool, new: State, old: State) requires self.monotone(f, fwd), self.st_inv(new), self.st_inv(old), self.le(old, new) ensures vstd::std_specs::cmp::PartialOrdSpec::partial_cmp_spec(&new, &old) == Some(core::cmp::Ordering::Equal) || vstd::std_specs::cmp::PartialOrdSpec::partial_cmp_spec(&new, &old) == Some(core::cmp::Ordering::Greater); fn trans(` ## R-trait-contract: adds ghost members (spec vocabulary and proof obligations, erased at compile time) in front of the first method; no executable member is added or changed
//@ rewrite 1 `state: Option<State>, ) -> Result<State, Error>;` => `state: Option<State>, ) -> (r: Result<State, Error>) requires location.rpl_wf(), self.an_inv(*location.function), state matches Some(s) ==> self.st_inv(s), ensures r matches Ok(s) ==> self.st_inv(s) && self.le(s, self.trans_spec(*location.function, location.loc(), state)) && self.le(self.trans_spec(*location.function, location.loc(), state), s), r matches Err(e) ==> self.trans_err(*location.function, location.loc(), state, e);` ## R-trait-contract: names the result and attaches the contract to the trait method; the executable signature `fn trans(&self, location, state) -> Result<State, Error>` is unchanged
//@ rewrite 1 `state1: &State) -> Result<State, Error>;` => `state1: &State) -> (r: Result<State, Error>) requires self.st_inv(state0), self.st_inv(*state1), ensures r matches Ok(s) && self.st_inv(s) && self.le(s, self.join_spec(state0, *state1)) && self.le(self.join_spec(state0, *state1), s);` ## R-trait-contract: names the result and attaches the contract to the trait method; the executable signature `fn join(&self, state0, state1) -> Result<State, Error>` is unchanged
//@ end

/// `None` (no information yet) is below everything; `Some(a) <= Some(b)` is `le(a, b)`
pub open spec fn opt_le<'f, State: 'f + Clone + Debug + PartialOrd, A: FixedPointAnalysis<'f, State>>(a: &A, s1: Option<State>, s2: Option<State>) -> bool {
    s1 matches Some(x1) ==> (s2 matches Some(x2) && a.le(x1, x2))
}

/// order-equivalence (equality in the lattice)
pub open spec fn eqv<'f, State: 'f + Clone + Debug + PartialOrd, A: FixedPointAnalysis<'f, State>>(a: &A, x: State, y: State) -> bool {
    a.le(x, y) && a.le(y, x)
}

pub open spec fn opt_inv<'f, State: 'f + Clone + Debug + PartialOrd, A: FixedPointAnalysis<'f, State>>(a: &A, s: Option<State>) -> bool {
    s matches Some(x) ==> a.st_inv(x)
}
