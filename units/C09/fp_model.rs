// ======================================================================================
// units/C09/fp_model.rs - TEMPLATE CODE (not extracted from /repo): one tiny concrete analysis that
// implements the contracted trait and discharges every obligation.  It shows that the trait contract
// of units/C09/fp_trait.rs is satisfiable (vacuity guard) and is a worked example for implementors.
// The analysis: State = u8 in {0, 1, 2}, "distance from the start location, capped at 2":
//   trans(l, None) = 1, trans(l, Some(v)) = min(v + 1, 2), join = max, le = <=.
// ======================================================================================
pub struct CappedDistance {}

impl<'f> FixedPointAnalysis<'f, u8> for CappedDistance {
    open spec fn an_inv(&self, f: Function) -> bool { true }
    open spec fn st_inv(&self, s: u8) -> bool { s <= 2 }
    open spec fn le(&self, a: u8, b: u8) -> bool { a <= b }
    open spec fn trans_spec(&self, f: Function, l: Loc, s: Option<u8>) -> u8 {
        match s { None => 1u8, Some(v) => if v >= 2 { 2u8 } else { (v + 1) as u8 } }
    }
    open spec fn trans_err(&self, f: Function, l: Loc, s: Option<u8>, e: Error) -> bool { false }
    open spec fn join_spec(&self, a: u8, b: u8) -> u8 { if a >= b { a } else { b } }
    open spec fn cmp_exact(&self) -> bool { true }
    open spec fn monotone(&self, f: Function, fwd: bool) -> bool { true }

    proof fn law_partial_cmp() {}
    proof fn law_clone(&self, a: u8, b: u8) {}
    proof fn law_le_refl(&self, a: u8) {}
    proof fn law_le_trans(&self, a: u8, b: u8, c: u8) {}
    proof fn law_join_inv(&self, a: u8, b: u8) {}
    proof fn law_join_ub(&self, a: u8, b: u8) {}
    proof fn law_join_least(&self, a: u8, b: u8, c: u8) {}
    proof fn law_trans_inv(&self, f: Function, fwd: bool, l: Loc, s: Option<u8>) {}
    proof fn law_trans_cong(&self, f: Function, fwd: bool, l: Loc, s1: u8, s2: u8) {}
    proof fn law_cmp_exact(&self, new: u8, old: u8) {}
    proof fn law_trans_mono(&self, f: Function, fwd: bool, l: Loc, s1: Option<u8>, s2: Option<u8>) {}
    proof fn law_cmp_equal(&self, f: Function, fwd: bool, new: u8, old: u8) {}
    proof fn law_cmp_ascending(&self, f: Function, fwd: bool, new: u8, old: u8) {}

    fn trans(&self, location: il::RefProgramLocation<'f>, state: Option<u8>) -> (r: Result<u8, Error>) {
        match state {
            None => Ok(1),
            Some(v) => if v >= 2 { Ok(2) } else { Ok(v + 1) },
        }
    }

    fn join(&self, state0: u8, state1: &u8) -> (r: Result<u8, Error>) {
        if state0 >= *state1 { Ok(state0) } else { Ok(*state1) }
    }
}

/// a client: the contract of the forward solver instantiated at the model analysis
pub fn model_client(function: &il::Function) -> (r: bool)
    requires function.function_wf(),
{
    let a = CappedDistance {};
    match fixed_point_forward(a, function) {
        Ok(m) => {
            proof {
                let st = fview(m@, *function);
                assert(solution_domain(*function, true, st));
                assert(solution_eqs(&a, *function, true, st));
                assert(solution_least(&a, *function, true, st));
                lemma_solution_is_post_fixpoint(&a, *function, true, st);
            }
            true
        }
        Err(e) => {
            proof {
                // a monotone analysis whose `trans` never fails: the only possible errors are "no entry" and the step budget
                assert(e == Error::FixedPointRequiresEntry || e == Error::FixedPointMaxSteps);
            }
            false
        }
    }
}
