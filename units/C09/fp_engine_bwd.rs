// ======================================================================================
// units/C09/fp_engine_bwd.rs - the backward solver of lib/analysis/fixed_point.rs under contract:
// fixed_point_backward_options, fixed_point_backward.
// Same invariants and step lemmas as the forward solver (units/C09/fp_theory.rs, fwd == false); the
// concrete data are HashMap<RefProgramLocation<'f>, State> and VecDeque<RefProgramLocation<'f>>.
// Termination is proved from the step budget the backward solver has since /repo commit 19d2311
// (decreases DEFAULT_MAX_ANALYSIS_STEPS + 1 - steps).
// ======================================================================================
broadcast use {location_hash::axiom_ref_program_location_obeys_key_model, vstd::std_specs::hash::axiom_random_state_builds_valid_hashers};

/// some borrowed location of `f` denotes `l`
pub open spec fn has_rfl(f: &Function, l: Loc) -> bool {
    exists|y: RefFunctionLocation| #[trigger] rfl_in(*f, y) && loc_of(y) == l
}

/// the borrowed form of location `l` of function `f` (unique in a well-formed function: C18 lemma_rfl_in_unique)
pub open spec fn rkey<'a>(f: &'a Function, l: Loc) -> RefProgramLocation<'a> {
    RefProgramLocation { function: f, function_location: choose|y: RefFunctionLocation<'a>| #[trigger] rfl_in(*f, y) && loc_of(y) == l }
}

/// the abstract solution a `HashMap<RefProgramLocation, State>` denotes for function `f`
pub open spec fn bview<S>(m: Map<RefProgramLocation, S>, f: &Function) -> LMap<S> {
    |l: Loc| if has_rfl(f, l) && m.contains_key(rkey(f, l)) { Some(m[rkey(f, l)]) } else { None }
}

/// every key is a borrowed location of `f`
pub open spec fn bkeys_ok<S>(m: Map<RefProgramLocation, S>, f: &Function) -> bool {
    forall|k: RefProgramLocation| #[trigger] m.contains_key(k) ==> *k.function == *f && rfl_in(*f, k.function_location)
}

/// the abstract work list
pub open spec fn bqueue(q: Seq<RefProgramLocation>, f: &Function) -> LSet {
    |l: Loc| has_rfl(f, l) && q.contains(rkey(f, l))
}

pub open spec fn bq_ok(q: Seq<RefProgramLocation>, f: &Function) -> bool {
    forall|i: int| 0 <= i < q.len() ==> *(#[trigger] q[i]).function == *f && rfl_in(*f, q[i].function_location)
}

/// a borrowed location of `f` is the key of the abstract location it denotes
pub proof fn lemma_rkey_of(f: &Function, k: RefProgramLocation)
    requires f.function_wf(), *k.function == *f, rfl_in(*f, k.function_location),
    ensures k == rkey(f, k.loc()), has_rfl(f, k.loc()),
{
    let l = k.loc();
    assert(rfl_in(*f, k.function_location) && loc_of(k.function_location) == l);
    let y = choose|y: RefFunctionLocation| #[trigger] rfl_in(*f, y) && loc_of(y) == l;
    lemma_rfl_in_unique(*f, y, k.function_location);
}

pub proof fn lemma_rkey_inj(f: &Function, l: Loc, x: Loc)
    requires has_rfl(f, l), has_rfl(f, x),
    ensures (rkey(f, l) == rkey(f, x)) <==> l == x, rkey(f, l).loc() == l, *rkey(f, l).function == *f, rfl_in(*f, rkey(f, l).function_location),
{
}

pub proof fn lemma_bview_insert<S>(m: Map<RefProgramLocation, S>, f: &Function, x: Loc, v: S)
    requires has_rfl(f, x),
    ensures bview(m.insert(rkey(f, x), v), f) == lm_upd(bview(m, f), x, v),
{
    assert forall|l: Loc| #[trigger] bview(m.insert(rkey(f, x), v), f)(l) == lm_upd(bview(m, f), x, v)(l) by {
        if has_rfl(f, l) { lemma_rkey_inj(f, l, x); }
    }
    assert(bview(m.insert(rkey(f, x), v), f) =~= lm_upd(bview(m, f), x, v));
}

pub proof fn lemma_bqueue_pop(q: Seq<RefProgramLocation>, f: &Function, x: Loc)
    requires q.len() > 0, has_rfl(f, x), q[0] == rkey(f, x),
    ensures forall|l: Loc| #![trigger bqueue(q, f)(l)] #![trigger bqueue(q.subrange(1, q.len() as int), f)(l)]
        bqueue(q, f)(l) <==> (l == x || bqueue(q.subrange(1, q.len() as int), f)(l)),
{
    let r = q.subrange(1, q.len() as int);
    let a = bqueue(q, f);
    let b = bqueue(r, f);
    assert forall|l: Loc| #![trigger a(l)] #![trigger b(l)] a(l) <==> (l == x || b(l)) by {
        if has_rfl(f, l) {
            lemma_rkey_inj(f, l, x);
            let k = rkey(f, l);
            if q.contains(k) {
                let i = choose|i: int| 0 <= i < q.len() && q[i] == k;
                if i > 0 { assert(r[i - 1] == k); }
            }
            if r.contains(k) {
                let i = choose|i: int| 0 <= i < r.len() && r[i] == k;
                assert(q[i + 1] == k);
            }
        }
    }
}

pub proof fn lemma_bqueue_push(q: Seq<RefProgramLocation>, f: &Function, x: Loc)
    requires has_rfl(f, x),
    ensures
        forall|l: Loc| #![trigger bqueue(q.push(rkey(f, x)), f)(l)] bqueue(q.push(rkey(f, x)), f)(l) <==> (bqueue(q, f)(l) || l == x),
        bq_ok(q, f) ==> bq_ok(q.push(rkey(f, x)), f),
{
    let k = rkey(f, x);
    let q2 = q.push(k);
    lemma_rkey_inj(f, x, x);
    assert forall|l: Loc| #![trigger bqueue(q2, f)(l)] bqueue(q2, f)(l) <==> (bqueue(q, f)(l) || l == x) by {
        if has_rfl(f, l) {
            lemma_rkey_inj(f, l, x);
            if q2.contains(rkey(f, l)) {
                let i = choose|i: int| 0 <= i < q2.len() && q2[i] == rkey(f, l);
                if i < q.len() { assert(q[i] == rkey(f, l)); }
            }
            if q.contains(rkey(f, l)) {
                let i = choose|i: int| 0 <= i < q.len() && q[i] == rkey(f, l);
                assert(q2[i] == rkey(f, l));
            }
            if l == x { assert(q2[q.len() as int] == k); }
        }
    }
    if bq_ok(q, f) {
        assert forall|i: int| 0 <= i < q2.len() implies *(#[trigger] q2[i]).function == *f && rfl_in(*f, q2[i].function_location) by {
            if i < q.len() { assert(q2[i] == q[i]); }
        }
    }
}

//@ source lib/analysis/fixed_point.rs
//@ fn fn fixed_point_backward_options loops=3
//@ rewrite 1 `let state = location_successors .iter() .fold(None, |s, p| match` => `let mut state_acc: Option<State> = None; for p in it: location_successors.iter() { let s = state_acc; state_acc = match` ## R-fold: `iter.fold(init, |s, p| BODY)` is by definition `let mut acc = init; for p in iter { let s = acc; acc = BODY; } acc`; the closure body BODY is kept token for token
//@ rewrite 1 `None => s, }); let mut state = analysis.trans(` => `None => s, }; } let state = state_acc; let mut state = analysis.trans(` ## R-fold: closes the loop of the rewritten fold and binds its result to the original name
//@ rewrite 1 `for successor in location.backward()? {` => `let predecessors__ = location.backward()?; for successor in it2: predecessors__ {` ## R-let-iter: binds the iterated vector to a name before the loop and names the ghost iterator, so that invariants can mention them; evaluation order and the `?` are unchanged
//@ spec
    requires function.function_wf(), analysis.an_inv(*function),
    ensures
        /*@no_exit*/ function.control_flow_graph.exit is None ==> r == Err::<HashMap<il::RefProgramLocation<'f>, State>, Error>(Error::FixedPointRequiresExit),
        /*@domain*/ r matches Ok(m) ==> bkeys_ok(m@, function) && solution_domain(*function, false, bview(m@, function)),
        /*@state_inv*/ r matches Ok(m) ==> lm_inv(&analysis, bview(m@, function)),
        /*@equations*/ r matches Ok(m) ==> (!force && (analysis.cmp_exact() || analysis.monotone(*function, false))
            ==> solution_eqs(&analysis, *function, false, bview(m@, function))),
        /*@least*/ r matches Ok(m) ==> (!force && analysis.monotone(*function, false)
            ==> solution_least(&analysis, *function, false, bview(m@, function))),
        /*@errors*/ r matches Err(e) ==> fp_error(&analysis, *function, false, force, e),
//@ enter
    let ghost f = *function;
    let ghost eqs = !force && (analysis.cmp_exact() || analysis.monotone(f, false));
    let ghost mono = !force && analysis.monotone(f, false);
    let ghost mut li: LMap<State> = |l: Loc| None::<State>;
    proof { Analysis::law_partial_cmp(); }
//@ before 0 `let mut steps = 0;`
    proof {
        assert(start_loc(f, false) is Some);
        let s0 = start_loc(f, false).unwrap();
        assert(queue@.len() == 1);
        lemma_rkey_of(function, queue@[0]);
        assert(queue@[0].loc() == s0);
        assert forall|l: Loc| #[trigger] bqueue(queue@, function)(l) <==> Some(l) == start_loc(f, false) by {
            if has_rfl(function, l) { lemma_rkey_inj(function, l, s0); }
            if l == s0 { assert(queue@[0] == rkey(function, l)); }
        }
        lemma_inv_init(&analysis, f, false, bview(states@, function), bqueue(queue@, function), li);
    }
//@ loop 0
    invariant
        f == *function, function.function_wf(), analysis.an_inv(f),
        eqs == (!force && (analysis.cmp_exact() || analysis.monotone(f, false))),
        mono == (!force && analysis.monotone(f, false)),
        <State as vstd::std_specs::cmp::PartialOrdSpec>::obeys_partial_cmp_spec(),
        start_loc(f, false) is Some,
        bkeys_ok(states@, function), bq_ok(queue@, function),
        dom_inv(&analysis, f, false, bview(states@, function), bqueue(queue@, function)),
        eqs ==> eq_inv(&analysis, f, false, bview(states@, function), bqueue(queue@, function)),
        mono ==> asc_inv(&analysis, f, false, bview(states@, function), li) && solution_least(&analysis, f, false, bview(states@, function)),
        steps <= DEFAULT_MAX_ANALYSIS_STEPS + 1,
    decreases DEFAULT_MAX_ANALYSIS_STEPS + 1 - steps,
//@ before 0 `let location = queue.pop_front().unwrap();`
    let ghost q0 = queue@;
    let ghost st = bview(states@, function);
    let ghost inq_old = bqueue(q0, function);
    let ghost x = q0[0].loc();
    proof {
        lemma_rkey_of(function, q0[0]);
        assert(inq_old(x));
        lemma_queued(&analysis, f, false, st, inq_old, x);
    }
//@ before 0 `let location_successors = location.forward()?;`
    let ghost inq_rest = bqueue(queue@, function);
    proof {
        assert(queue@ == q0.subrange(1, q0.len() as int));
        lemma_bqueue_pop(q0, function, x);
        assert(location.rpl_wf() && location.loc() == x && *location.function == f);
    }
//@ before 0 `let mut state_acc`
    let ghost pv = location_successors@;
    let ghost ps = rpl_locs(pv);
    proof {
        assert((|l2: Loc| succ(*location.function, location.loc(), l2)) =~= (|l2: Loc| succ(f, x, l2)));
        lemma_rpls_inputs(pv, f, false, x, |l2: Loc| succ(f, x, l2));
        lemma_inputs_inv(&analysis, st, ps);
    }
//@ loop 1
    invariant
        it.seq().len() == pv.len(), forall|i: int| 0 <= i < pv.len() ==> *(#[trigger] it.seq()[i]) == pv[i],
        ps == rpl_locs(pv), st == bview(states@, function), lm_inv(&analysis, st), f == *function, function.function_wf(),
        forall|i: int| 0 <= i < pv.len() ==> *(#[trigger] pv[i]).function == f && rfl_in(f, pv[i].function_location),
        opt_inv(&analysis, state_acc),
        opt_eqv(&analysis, state_acc, fold_in(&analysis, st, ps, it.index@ as nat)),
//@ before 0 `let s = state_acc;`
    let ghost acc0 = state_acc;
    let ghost i0 = it.index@;
    proof {
        assert(*p == pv[i0]);
        assert(ps[i0] == p.loc());
        lemma_rkey_of(function, *p);
        assert(opt_inv(&analysis, st(ps[i0])));
        lemma_inputs_inv(&analysis, st, ps);
        lemma_fold_inv(&analysis, st, ps, i0 as nat);
    }
//@ after 0 `None => s, };`
    proof {
        let xo = st(ps[i0]);
        if xo is Some && acc0 is None {
            analysis.law_clone(xo.unwrap(), state_acc.unwrap());
        }
        lemma_fold_step_exec(&analysis, acc0, fold_in(&analysis, st, ps, i0 as nat), xo, state_acc);
    }
//@ before 0 `let mut state = analysis.trans(`
    let ghost in_exec = state;
    proof {
        assert(opt_eqv(&analysis, in_exec, in_fold(&analysis, st, ps)));
        lemma_fold_inv(&analysis, st, ps, ps.len());
    }
//@ before 0 `if let Some(in_state) = states.get(&location)`
    let ghost v0 = state;
    proof {
        lemma_trans_exec(&analysis, f, false, x, in_exec, in_fold(&analysis, st, ps), v0);
        lemma_rkey_of(function, location);
        assert(st(x) == (if states@.contains_key(location) { Some(states@[location]) } else { None }));
    }
//@ before 0 `continue;`
    proof {
        if eqs { lemma_equal_case(&analysis, f, false, st, inq_old, li, x, ps, v0); }
        lemma_iter_equal(&analysis, f, false, st, inq_old, inq_rest, x, ps, eqs);
    }
//@ before 0 `return Err(Error::FixedPointOrdering(`
    proof {
        if analysis.monotone(f, false) { lemma_no_ordering_error(&analysis, f, false, st, inq_old, li, x, ps, v0); }
    }
//@ before 0 `states.insert(location.clone(), state);`
    let ghost v = state;
    let ghost st2 = lm_upd(st, x, v);
    proof {
        if mono {
            if st(x) is Some { lemma_no_ordering_error(&analysis, f, false, st, inq_old, li, x, ps, v); }
            lemma_iter_insert_mono(&analysis, f, false, st, inq_old, li, x, ps, v);
            li = lm_upd_opt(li, x, in_fold(&analysis, st, ps));
        }
        lemma_bview_insert(states@, function, x, v);
    }
//@ before 0 `for successor in it2: predecessors__ {`
    let ghost sv = predecessors__@;
    let ghost locs = rpl_locs(sv);
    proof {
        assert(bview(states@, function) == st2);
        assert((|l2: Loc| pred(*location.function, location.loc(), l2)) =~= (|l2: Loc| pred(f, x, l2)));
        lemma_rpls_steps(sv, f, false, x, |l2: Loc| pred(f, x, l2));
        assert forall|inq_new: LSet| #[trigger] queue_rel(inq_rest, inq_new, locs, locs.len() as int)
            implies q_inv(&analysis, f, false, eqs, st2, inq_new) by {
            assert forall|l: Loc| #![trigger inq_new(l)] #![trigger inq_rest(l)] #![trigger step(f, false, x, l)]
                inq_new(l) <==> (inq_rest(l) || step(f, false, x, l)) by {
                if step(f, false, x, l) { assert(locs.contains(l)); }
                if exists|j: int| 0 <= j < locs.len() && locs[j] == l {
                    let j = choose|j: int| 0 <= j < locs.len() && locs[j] == l;
                    assert(step(f, false, x, sv[j].loc()));
                }
            }
            lemma_iter_insert_dom(&analysis, f, false, st, inq_old, inq_rest, inq_new, x, v);
            if eqs { lemma_iter_insert_eq(&analysis, f, false, st, inq_old, inq_rest, inq_new, x, ps, v); }
        }
        assert(queue_rel(inq_rest, bqueue(queue@, function), locs, 0));
        assert forall|k: RefProgramLocation| #[trigger] states@.contains_key(k) implies *k.function == *function && rfl_in(*function, k.function_location) by { }
    }
//@ loop 2
    invariant
        it2.seq() == sv, locs == rpl_locs(sv), f == *function, function.function_wf(),
        forall|i: int| 0 <= i < sv.len() ==> *(#[trigger] sv[i]).function == f && rfl_in(f, sv[i].function_location),
        bq_ok(queue@, function), bkeys_ok(states@, function), bview(states@, function) == st2,
        queue_rel(inq_rest, bqueue(queue@, function), locs, it2.index@),
        forall|inq_new: LSet| #[trigger] queue_rel(inq_rest, inq_new, locs, locs.len() as int) ==> q_inv(&analysis, f, false, eqs, st2, inq_new),
        mono ==> asc_inv(&analysis, f, false, st2, li) && solution_least(&analysis, f, false, st2),
//@ after 0 `for successor in it2: predecessors__ {`
    proof {
        assert(successor == sv[it2.index@]);
        assert(locs[it2.index@] == successor.loc());
        lemma_rkey_of(function, successor);
        lemma_bqueue_push(queue@, function, locs[it2.index@]);
        lemma_queue_rel_step(inq_rest, bqueue(queue@, function), bqueue(queue@.push(rkey(function, locs[it2.index@])), function), locs, it2.index@);
    }
//@ before 0 `Ok(states)`
    proof {
        assert forall|l: Loc| !#[trigger] bqueue(queue@, function)(l) by { }
        lemma_final(&analysis, f, false, bview(states@, function), bqueue(queue@, function), eqs);
    }
//@ end

//@ fn fn fixed_point_backward
//@ spec
    requires function.function_wf(), analysis.an_inv(*function),
    ensures
        /*@no_exit*/ function.control_flow_graph.exit is None ==> r == Err::<HashMap<il::RefProgramLocation<'f>, State>, Error>(Error::FixedPointRequiresExit),
        /*@domain*/ r matches Ok(m) ==> bkeys_ok(m@, function) && solution_domain(*function, false, bview(m@, function)),
        /*@state_inv*/ r matches Ok(m) ==> lm_inv(&analysis, bview(m@, function)),
        /*@equations*/ r matches Ok(m) ==> (analysis.cmp_exact() || analysis.monotone(*function, false)
            ==> solution_eqs(&analysis, *function, false, bview(m@, function))),
        /*@least*/ r matches Ok(m) ==> (analysis.monotone(*function, false)
            ==> solution_least(&analysis, *function, false, bview(m@, function))),
        /*@errors*/ r matches Err(e) ==> fp_error(&analysis, *function, false, false, e),
//@ end
