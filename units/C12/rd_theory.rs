// ======================================================================================
// units/C12/rd_theory.rs - SPEC LEVEL ONLY (no `//@ fn` holes): executions of a function as histories of
// executed locations, the concretisation gamma ("the last writer of every scalar is a member"), LOCAL
// SOUNDNESS of the transfer function, join an upper bound, the abstract-interpretation lemma L-AI for this
// instance, and PRECISION from C09's leastness against the path-based post-fixpoint.
// Included inside `pub mod reaching_definitions` after rd_analysis.rs.
// ======================================================================================

// ---------------------------------------------------------------------------------------------
// executions

/// a configuration: the location that has JUST been executed and the history of executed locations (ending with it)
pub type Config = (Loc, Seq<Loc>);

/// ONE STEP of the function: control moves to a successor location (`succ` of unit C18; edge guards are
/// over-approximated: every successor may be taken) and executes it.  Values are not modelled: which
/// instruction wrote a scalar last depends on the sequence of executed locations only.
pub open spec fn exec_step(f: il::Function, c1: Config, c2: Config) -> bool {
    il::succ(f, c1.0, c2.0) && c2.1 == c1.1.push(c2.0)
}

/// a finite execution prefix inside the function: starts by executing the entry location
pub open spec fn is_run(f: il::Function, run: Seq<Config>) -> bool {
    &&& run.len() > 0
    &&& Some(run[0].0) == il::entry_loc(f)
    &&& run[0].1 == seq![run[0].0]
    &&& forall|k: int| 0 <= k < run.len() - 1 ==> exec_step(f, #[trigger] run[k], run[k + 1])
}

/// position `j` of history `h` holds THE LAST WRITER of scalar `x`
pub open spec fn last_writer(f: il::Function, h: Seq<Loc>, x: il::Scalar, j: int) -> bool {
    &&& 0 <= j < h.len()
    &&& writes(f, h[j], x)
    &&& forall|k: int| j < k < h.len() ==> !writes(f, #[trigger] h[k], x)
}

/// CONCRETISATION: history `h` is described by the set of definitions `s` when the last writer of every
/// scalar (if the scalar has been written at all) is a member of `s`
pub open spec fn gamma(f: il::Function, s: LSet, h: Seq<Loc>) -> bool {
    forall|x: il::Scalar, j: int| #[trigger] last_writer(f, h, x, j) ==> s(h[j])
}

/// nothing executed yet: every abstract state describes the empty history
pub proof fn lemma_gamma_empty(f: il::Function, s: LSet)
    ensures gamma(f, s, Seq::<Loc>::empty()),
{
}

/// gamma is monotone in the abstract order (so a JOIN, being an upper bound, describes what either operand describes)
pub proof fn lemma_gamma_mono(f: il::Function, s1: LSet, s2: LSet, h: Seq<Loc>)
    requires gamma(f, s1, h), forall|d: Loc| s1(d) ==> #[trigger] s2(d),
    ensures gamma(f, s2, h),
{
    assert forall|x: il::Scalar, j: int| #[trigger] last_writer(f, h, x, j) implies s2(h[j]) by {
        assert(s1(h[j]));
    }
}

/// LOCAL SOUNDNESS of the transfer function: if `s` describes the history so far, `trans(l, s)` describes the
/// history extended by the execution of `l` - for EVERY operation (multi-write intrinsics included: a definition
/// is removed only if the whole write vector coincides, so it is never the last writer of anything afterwards)
pub proof fn lemma_trans_sound(f: il::Function, l: Loc, s: LSet, h: Seq<Loc>)
    requires gamma(f, s, h),
    ensures gamma(f, trans_locs(f, l, s), h.push(l)),
{
    let h2 = h.push(l);
    let t = trans_locs(f, l, s);
    assert forall|x: il::Scalar, j: int| #[trigger] last_writer(f, h2, x, j) implies t(h2[j]) by {
        if j == h.len() {
            assert(h2[j] == l);
        } else {
            assert(h2[j] == h[j]);
            assert(!writes(f, h2[h.len() as int], x));
            assert(last_writer(f, h, x, j)) by {
                assert forall|k: int| j < k < h.len() implies !writes(f, #[trigger] h[k], x) by {
                    assert(h2[k] == h[k]);
                }
            }
            assert(s(h[j]));
            if gens(f, l) && kills(f, l, h[j]) {
                assert(writes(f, l, x));
            }
        }
    }
}

// ---------------------------------------------------------------------------------------------
// the equation at a location, on views

/// the equation of C09 at location `l`, read on views: RD[l] = trans_view(l, in-state), where the in-state is the
/// join-fold of the states of the predecessors (returns the listing the equation refers to)
pub proof fn lemma_eqn_view(fr: &il::Function, m: Map<il::ProgramLocation, LocationSet>, l: Loc) -> (ps: Seq<Loc>)
    requires fr.function_wf(), is_rd_solution(fr, m), fp_closure(*fr, true, l),
    ensures
        m.contains_key(ploc(*fr, l)),
        lists_inputs(*fr, true, l, ps),
        m[ploc(*fr, l)]@ == trans_view(*fr, l, in_view(in_fold(&rda_of(fr), fview(m, *fr), ps))),
{
    broadcast use hashset_of::axiom_hashset_of;
    let f = *fr;
    let a = rda_of(fr);
    let st = fview(m, f);
    assert(st(l) is Some);
    assert(eqn_at(&a, f, true, st, l));
    let ps = choose|ps: Seq<Loc>| #[trigger] lists_inputs(f, true, l, ps) && eqv(&a, st(l).unwrap(), a.trans_spec(f, l, in_fold(&a, st, ps)));
    assert(m[ploc(f, l)]@ =~= trans_view(f, l, in_view(in_fold(&a, st, ps))));
    ps
}

/// the in-state of `l` contains the state of every predecessor that has one
pub proof fn lemma_in_fold_above(fr: &il::Function, m: Map<il::ProgramLocation, LocationSet>, l: Loc, ps: Seq<Loc>, p: Loc)
    requires
        is_rd_solution(fr, m), lists_inputs(*fr, true, l, ps), il::pred(*fr, l, p), m.contains_key(ploc(*fr, p)),
    ensures
        in_fold(&rda_of(fr), fview(m, *fr), ps) matches Some(j) && m[ploc(*fr, p)]@.subset_of(j@),
{
    let f = *fr;
    let a = rda_of(fr);
    let st = fview(m, f);
    lemma_in_fold_is_lub(&a, f, true, st, l, ps);
    assert(input_of(f, true, l, p) && st(p) is Some);
    let j = in_fold(&a, st, ps).unwrap();
    assert(inputs_below(&a, f, true, st, l, j));
}

// ---------------------------------------------------------------------------------------------
// L-AI

/// L-AI FOR THIS INSTANCE: on every finite execution from the entry, when control has just executed a location,
/// that location has a state in the solution and the state describes the history: THE LAST WRITER OF EVERY
/// SCALAR IS AMONG THE REPORTED REACHING DEFINITIONS.
pub proof fn lemma_lai(fr: &il::Function, m: Map<il::ProgramLocation, LocationSet>, run: Seq<Config>, k: int)
    requires fr.function_wf(), is_rd_solution(fr, m), is_run(*fr, run), 0 <= k < run.len(),
    ensures
        fp_closure(*fr, true, run[k].0),
        m.contains_key(ploc(*fr, run[k].0)),
        run[k].1.len() > 0 && run[k].1.last() == run[k].0,
        gamma(*fr, locs_of(*fr, m[ploc(*fr, run[k].0)]@), run[k].1),
    decreases k,
{
    let f = *fr;
    let a = rda_of(fr);
    let st = fview(m, f);
    let l = run[k].0;
    let h = run[k].1;
    if k == 0 {
        lemma_closure_start(f, true);
        let ps = lemma_eqn_view(fr, m, l);
        let jin = in_view(in_fold(&a, st, ps));
        let h0 = Seq::<Loc>::empty();
        lemma_gamma_empty(f, locs_of(f, jin));
        lemma_trans_sound(f, l, locs_of(f, jin), h0);
        assert(h0.push(l) =~= h);
        assert forall|d: Loc| trans_locs(f, l, locs_of(f, jin))(d) implies #[trigger] locs_of(f, m[ploc(f, l)]@)(d) by {
            lemma_trans_locs(f, l, jin, d);
        }
        lemma_gamma_mono(f, trans_locs(f, l, locs_of(f, jin)), locs_of(f, m[ploc(f, l)]@), h);
    } else {
        lemma_lai(fr, m, run, k - 1);
        let c1 = run[k - 1];
        assert(exec_step(f, c1, run[k]));
        let l1 = c1.0;
        let h1 = c1.1;
        lemma_closure_step(f, true, l1, l);
        let ps = lemma_eqn_view(fr, m, l);
        lemma_step_input(f, true, l1, l);
        lemma_in_fold_above(fr, m, l, ps, l1);
        let jin = in_view(in_fold(&a, st, ps));
        assert forall|d: Loc| locs_of(f, m[ploc(f, l1)]@)(d) implies #[trigger] locs_of(f, jin)(d) by {}
        lemma_gamma_mono(f, locs_of(f, m[ploc(f, l1)]@), locs_of(f, jin), h1);
        lemma_trans_sound(f, l, locs_of(f, jin), h1);
        assert forall|d: Loc| trans_locs(f, l, locs_of(f, jin))(d) implies #[trigger] locs_of(f, m[ploc(f, l)]@)(d) by {
            lemma_trans_locs(f, l, jin, d);
        }
        lemma_gamma_mono(f, trans_locs(f, l, locs_of(f, jin)), locs_of(f, m[ploc(f, l)]@), h);
    }
}

/// THE FIRST CLAUSE OF THE PROPERTY: on every execution, when control has just executed location l, the
/// instruction that most recently wrote scalar x is among the reaching definitions reported for l
pub proof fn theorem_last_writer_reported(fr: &il::Function, m: Map<il::ProgramLocation, LocationSet>, run: Seq<Config>, k: int, x: il::Scalar, j: int)
    requires
        fr.function_wf(), is_rd_solution(fr, m), is_run(*fr, run), 0 <= k < run.len(),
        last_writer(*fr, run[k].1, x, j),
    ensures
        m.contains_key(ploc(*fr, run[k].0)),
        m[ploc(*fr, run[k].0)]@.contains(ploc(*fr, run[k].1[j])),
{
    lemma_lai(fr, m, run, k);
}

// ---------------------------------------------------------------------------------------------
// PRECISION: every reported definition reaches the location along a definition-clear path

/// `p` is a path d -> ... -> l in the function on which no location strictly after `d` kills `d`
/// (i.e. has the same declared write vector as `d`)
pub open spec fn clear_path(f: il::Function, d: Loc, l: Loc, p: Seq<Loc>) -> bool {
    &&& fp_walk(f, true, p)
    &&& p[0] == d
    &&& p.last() == l
    &&& forall|i: int| 1 <= i < p.len() ==> !kills(f, #[trigger] p[i], d)
}

/// definition `d` reaches `l` along a definition-clear path
pub open spec fn reaches_clear(f: il::Function, d: Loc, l: Loc) -> bool {
    gens(f, d) && exists|p: Seq<Loc>| #[trigger] clear_path(f, d, l, p)
}

/// the (finite) universe of definitions: the instruction locations among the keys of the solution
pub open spec fn def_universe(m: Map<il::ProgramLocation, LocationSet>) -> PLSet {
    m.dom().filter(|k: il::ProgramLocation| kloc(k) is Instruction)
}

/// the path-based candidate: T[l] = the definitions that reach l along a definition-clear path
pub open spec fn path_set(f: il::Function, m: Map<il::ProgramLocation, LocationSet>, l: Loc) -> PLSet {
    def_universe(m).filter(|k: il::ProgramLocation| reaches_clear(f, kloc(k), l))
}

pub open spec fn path_map(f: il::Function, m: Map<il::ProgramLocation, LocationSet>) -> LMap<LocationSet> {
    |l: Loc| Some(state_of(path_set(f, m, l)))
}

/// the members of the universe are instruction locations of f
pub proof fn lemma_universe_ok(fr: &il::Function, m: Map<il::ProgramLocation, LocationSet>)
    requires fr.function_wf(), is_rd_solution(fr, m),
    ensures defs_ok(*fr, def_universe(m)),
{
    let f = *fr;
    assert forall|k: il::ProgramLocation| #[trigger] def_universe(m).contains(k) implies is_def_loc(f, k) by {
        assert(m.contains_key(k));
        lemma_ploc_of(f, k);
        assert(fview(m, f)(kloc(k)) is Some);
        lemma_closure_valid(f, true, kloc(k));
    }
}

/// a generating location of the closure reaches itself
pub proof fn lemma_reaches_self(fr: &il::Function, m: Map<il::ProgramLocation, LocationSet>, l: Loc)
    requires is_rd_solution(fr, m), fp_closure(*fr, true, l), gens(*fr, l),
    ensures path_set(*fr, m, l).contains(ploc(*fr, l)),
{
    let f = *fr;
    let p = seq![l];
    assert(clear_path(f, l, l, p));
    assert(fview(m, f)(l) is Some);
    assert(m.dom().contains(ploc(f, l)));
    assert(kloc(ploc(f, l)) == l);
}

/// a clear path to a predecessor extends to `l` unless `l` kills the definition
pub proof fn lemma_reaches_step(f: il::Function, d: Loc, p: Loc, l: Loc)
    requires f.function_wf(), reaches_clear(f, d, p), il::pred(f, l, p), !kills(f, l, d),
    ensures reaches_clear(f, d, l),
{
    let q = choose|q: Seq<Loc>| #[trigger] clear_path(f, d, p, q);
    let q2 = q.push(l);
    lemma_step_input(f, true, p, l);
    assert forall|i: int| 0 <= i < q2.len() - 1 implies step(f, true, #[trigger] q2[i], q2[i + 1]) by {
        if i < q.len() - 1 { assert(step(f, true, q[i], q[i + 1])); }
    }
    assert forall|i: int| 1 <= i < q2.len() implies !kills(f, #[trigger] q2[i], d) by {
        if i < q.len() { assert(q2[i] == q[i]); }
    }
    assert(clear_path(f, d, l, q2));
}

/// THE PATH-BASED MAP IS A POST-FIXPOINT of the data-flow equations
pub proof fn lemma_path_map_post_fixpoint(fr: &il::Function, m: Map<il::ProgramLocation, LocationSet>)
    requires fr.function_wf(), is_rd_solution(fr, m),
    ensures post_fixpoint(&rda_of(fr), *fr, true, path_map(*fr, m)),
{
    broadcast use hashset_of::axiom_hashset_of;
    let f = *fr;
    let a = rda_of(fr);
    let t = path_map(f, m);
    let tr = lm_restrict(f, true, t);
    let u = def_universe(m);
    lemma_universe_ok(fr, m);
    assert(lm_inv(&a, tr)) by {
        assert forall|l: Loc| opt_inv(&a, #[trigger] tr(l)) by {}
    }
    assert forall|l: Loc| fp_closure(f, true, l) implies #[trigger] pf_at(&a, f, true, t, l) by {
        let x = t(l).unwrap();
        let ps = lemma_eqn_view(fr, m, l);
        let jt = in_fold(&a, tr, ps);
        lemma_in_fold_is_lub(&a, f, true, tr, l, ps);
        // an upper bound of the predecessors' path sets
        let cset = u.filter(|k: il::ProgramLocation| exists|p: Loc| il::pred(f, l, p) && fp_closure(f, true, p) && #[trigger] reaches_clear(f, kloc(k), p));
        let c = state_of(cset);
        assert(a.st_inv(c));
        assert(inputs_below(&a, f, true, tr, l, c)) by {
            assert forall|p: Loc| input_of(f, true, l, p) && #[trigger] tr(p) is Some implies a.le(tr(p).unwrap(), c) by {
                assert(fp_closure(f, true, p));
                assert forall|k: il::ProgramLocation| tr(p).unwrap()@.contains(k) implies c@.contains(k) by {
                    assert(il::pred(f, l, p) && fp_closure(f, true, p) && reaches_clear(f, kloc(k), p));
                }
            }
        }
        let tv = trans_view(f, l, in_view(jt));
        assert forall|k: il::ProgramLocation| tv.contains(k) implies x@.contains(k) by {
            if gens(f, l) && k == ploc(f, l) {
                lemma_reaches_self(fr, m, l);
            } else {
                assert(in_view(jt).contains(k));
                assert(jt is Some);
                assert(a.le(jt.unwrap(), c));
                assert(cset.contains(k));
                let p = choose|p: Loc| il::pred(f, l, p) && fp_closure(f, true, p) && #[trigger] reaches_clear(f, kloc(k), p);
                lemma_reaches_step(f, kloc(k), p, l);
            }
        }
        assert(lists_inputs(f, true, l, ps) && a.le(a.trans_spec(f, l, in_fold(&a, lm_restrict(f, true, t), ps)), x));
    }
}

/// THE PRECISION CLAUSE: every definition reported for a location is an instruction of the function that can
/// reach the location along a path on which no later location has the same declared write vector
pub proof fn theorem_reported_reaches(fr: &il::Function, m: Map<il::ProgramLocation, LocationSet>, l: Loc, k: il::ProgramLocation)
    requires fr.function_wf(), is_rd_solution(fr, m), m.contains_key(ploc(*fr, l)), m[ploc(*fr, l)]@.contains(k),
    ensures is_def_loc(*fr, k), reaches_clear(*fr, kloc(k), l),
{
    broadcast use hashset_of::axiom_hashset_of;
    let f = *fr;
    let a = rda_of(fr);
    let t = path_map(f, m);
    lemma_path_map_post_fixpoint(fr, m);
    assert(lm_below(&a, fview(m, f), t));
    assert(fview(m, f)(l) == Some(m[ploc(f, l)]));
    assert(a.le(m[ploc(f, l)], t(l).unwrap()));
    assert(path_set(f, m, l).contains(k));
    lemma_universe_ok(fr, m);
}

/// location `l` is an assignment to or a load into scalar `x`
pub open spec fn assigns_or_loads(f: il::Function, l: Loc, x: il::Scalar) -> bool {
    match op_at(f, l) {
        Some(il::Operation::Assign { dst, src }) => dst == x,
        Some(il::Operation::Load { dst, index }) => dst == x,
        _ => false,
    }
}

/// THE PRECISION CLAUSE IN THE WORDS OF THE PROPERTY: a reported assignment to / load into x reaches the location
/// along some path without an intervening (here: later, the location itself included) assignment or load of x
pub proof fn theorem_reported_assign_or_load(fr: &il::Function, m: Map<il::ProgramLocation, LocationSet>, l: Loc, k: il::ProgramLocation, x: il::Scalar)
    requires
        fr.function_wf(), is_rd_solution(fr, m), m.contains_key(ploc(*fr, l)), m[ploc(*fr, l)]@.contains(k),
        assigns_or_loads(*fr, kloc(k), x),
    ensures
        exists|p: Seq<Loc>| #![trigger fp_walk(*fr, true, p)] fp_walk(*fr, true, p) && p[0] == kloc(k) && p.last() == l
            && forall|i: int| 1 <= i < p.len() ==> !assigns_or_loads(*fr, #[trigger] p[i], x),
{
    let f = *fr;
    let d = kloc(k);
    theorem_reported_reaches(fr, m, l, k);
    let p = choose|p: Seq<Loc>| #[trigger] clear_path(f, d, l, p);
    assert(written_at(f, d) == Some(seq![x]));
    assert forall|i: int| 1 <= i < p.len() implies !assigns_or_loads(f, #[trigger] p[i], x) by {
        if assigns_or_loads(f, p[i], x) {
            assert(written_at(f, p[i]) == Some(seq![x]));
            assert(kills(f, p[i], d));
        }
    }
    assert(fp_walk(f, true, p) && p[0] == d && p.last() == l);
}
