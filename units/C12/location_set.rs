// ======================================================================================
// units/C12/location_set.rs - analysis::LocationSet (lib/analysis/location_set.rs): a finite set of
// il::ProgramLocation ordered by inclusion.  view = Set<ProgramLocation>; partial_cmp = the subset order;
// eq consistent with it.  REAL text, extracted; proved in THIS unit.
// Included inside `pub mod location_set` (needs the key-model axiom of ProgramLocation and vstd's RandomState axiom).
// ======================================================================================

//@ source lib/analysis/location_set.rs
//@ item struct LocationSet

pub type PLSet = Set<il::ProgramLocation>;

impl View for LocationSet {
    type V = PLSet;
    open spec fn view(&self) -> PLSet { self.locations@ }
}

// derive(Clone) on LocationSet clones the std HashSet: `HashSet::clone` yields a set with the same elements.
// ASSUMED (derive = structural copy); stated on the view only.
impl Clone for LocationSet {
    #[verifier::external_body]
    fn clone(&self) -> (r: LocationSet) ensures r@ == self@ { unimplemented!() }
}
// derive(Debug): needed as a trait bound only; opaque, no contract
impl std::fmt::Debug for LocationSet {
    #[verifier::external_body]
    fn fmt(&self, f: &mut std::fmt::Formatter<'_>) -> std::fmt::Result { unimplemented!() }
}

// ---------------------------------------------------------------------------------------------
// the subset order, as `partial_cmp` must report it

/// THE ORDER: Equal iff the same set; Less / Greater iff a strict subset / superset; None iff incomparable
pub open spec fn set_cmp(a: PLSet, b: PLSet) -> Option<Ordering> {
    if a == b { Some(Ordering::Equal) }
    else if a.subset_of(b) { Some(Ordering::Less) }
    else if b.subset_of(a) { Some(Ordering::Greater) }
    else { None }
}

impl vstd::std_specs::cmp::PartialOrdSpecImpl for LocationSet {
    open spec fn obeys_partial_cmp_spec() -> bool { true }
    open spec fn partial_cmp_spec(&self, other: &LocationSet) -> Option<Ordering> { set_cmp(self@, other@) }
}

impl vstd::std_specs::cmp::PartialEqSpecImpl for LocationSet {
    open spec fn obeys_eq_spec() -> bool { true }
    open spec fn eq_spec(&self, other: &LocationSet) -> bool { self@ == other@ }
}

/// the first `n` listed elements are members of `b`
pub open spec fn scan_in(items: Seq<&il::ProgramLocation>, n: int, b: PLSet) -> bool {
    forall|i: int| 0 <= i < n && i < items.len() ==> b.contains(*(#[trigger] items[i]))
}

/// the whole listing of `a` scanned: a is a subset of b
pub proof fn lemma_scan_done(a: PLSet, b: PLSet, items: Seq<&il::ProgramLocation>, n: int)
    requires graph::seq_lists_set_ref(items, a), scan_in(items, n, b),
    ensures n == items.len() ==> a.subset_of(b),
{
    if n != items.len() { return; }
    graph::lemma_seq_lists_set_ref(items, a);
    assert forall|k: il::ProgramLocation| a.contains(k) implies b.contains(k) by {
        let i = choose|i: int| 0 <= i < items.len() && *(#[trigger] items[i]) == k;
        assert(b.contains(*items[i]));
    }
}

/// a listed element is missing: a is not a subset of b
pub proof fn lemma_scan_fail(a: PLSet, b: PLSet, items: Seq<&il::ProgramLocation>, n: int)
    requires graph::seq_lists_set_ref(items, a), 0 <= n < items.len(), !b.contains(*items[n]),
    ensures !a.subset_of(b),
{
    graph::lemma_seq_lists_set_ref(items, a);
    assert(a.contains(*items[n]));
}

/// cardinality facts about finite sets that decide the comparison
pub proof fn lemma_cmp_by_len(a: PLSet, b: PLSet)
    ensures
        a.subset_of(b) ==> a.len() <= b.len(),
        a.subset_of(b) && a.len() == b.len() ==> a == b,
{
    if a.subset_of(b) {
        vstd::set_lib::lemma_len_subset(a, b);
        if a.len() == b.len() {
            vstd::set_lib::lemma_subset_equality(a, b);
            assert(a =~= b);
        }
    }
}

/// what the three arms of `partial_cmp` conclude
pub proof fn lemma_set_cmp(a: PLSet, b: PLSet)
    ensures
        a.len() == b.len() && a.subset_of(b) ==> set_cmp(a, b) == Some(Ordering::Equal),
        a.len() == b.len() && !a.subset_of(b) ==> set_cmp(a, b) is None,
        a.len() < b.len() && a.subset_of(b) ==> set_cmp(a, b) == Some(Ordering::Less),
        a.len() < b.len() && !a.subset_of(b) ==> set_cmp(a, b) is None,
        a.len() > b.len() && b.subset_of(a) ==> set_cmp(a, b) == Some(Ordering::Greater),
        a.len() > b.len() && !b.subset_of(a) ==> set_cmp(a, b) is None,
{
    lemma_cmp_by_len(a, b);
    lemma_cmp_by_len(b, a);
}

impl LocationSet {
//@ fn impl LocationSet :: fn new
//@ spec
    ensures /*@empty*/ r@ == Set::<il::ProgramLocation>::empty(),
//@ end

//@ fn impl LocationSet :: fn contains
//@ spec
    ensures /*@member*/ r == self@.contains(*location),
//@ end

//@ fn impl LocationSet :: fn insert
//@ spec
    ensures /*@insert*/ final(self)@ == old(self)@.insert(location),
//@ end

//@ fn impl LocationSet :: fn len
//@ spec
    ensures /*@card*/ r == self@.len(),
//@ end

//@ fn impl LocationSet :: fn is_empty
//@ spec
    ensures /*@empty*/ r == (self@ == Set::<il::ProgramLocation>::empty()),
//@ end

//@ fn impl LocationSet :: fn locations
//@ spec
    ensures /*@field*/ *r == self.locations,
//@ end

//@ fn impl LocationSet :: fn remove
//@ spec
    ensures /*@remove*/ final(self)@ == old(self)@.remove(*location),
//@ end
}

impl PartialOrd for LocationSet {
//@ fn impl PartialOrd for LocationSet :: fn partial_cmp nopub loops=3
//@ rewrite 2 `for rpl in &self.locations {` => `for rpl in it: &self.locations {` ## R-ghost-iter-name: names the ghost iterator of the for loop so that invariants can mention it; no executable change
//@ rewrite 1 `for rpl in &other.locations {` => `for rpl in it: &other.locations {` ## R-ghost-iter-name: names the ghost iterator of the for loop so that invariants can mention it; no executable change
//@ spec
    ensures /*@subset_order*/ r == set_cmp(self@, other@),
//@ enter
    proof {
        lemma_set_cmp(self@, other@);
        if self@.len() == 0 { self@.lemma_len0_is_empty(); assert(self@.subset_of(other@)); }
        if other@.len() == 0 { other@.lemma_len0_is_empty(); assert(other@.subset_of(self@)); }
    }
//@ loop 0
    invariant
        self@.len() == other@.len(),
        graph::seq_lists_set_ref(it.seq(), self@),
        scan_in(it.seq(), it.index@, other@),
        it.index@ == it.seq().len() ==> self@.subset_of(other@),
//@ before 0 `return None;`
    proof { lemma_scan_fail(self@, other@, it.seq(), it.index@); lemma_set_cmp(self@, other@); }
//@ after 0 `return None; }`
    proof { lemma_scan_done(self@, other@, it.seq(), it.index@ + 1); }
//@ loop 1
    invariant
        self@.len() < other@.len(),
        graph::seq_lists_set_ref(it.seq(), self@),
        scan_in(it.seq(), it.index@, other@),
        it.index@ == it.seq().len() ==> self@.subset_of(other@),
//@ before 1 `return None;`
    proof { lemma_scan_fail(self@, other@, it.seq(), it.index@); lemma_set_cmp(self@, other@); }
//@ after 1 `return None; }`
    proof { lemma_scan_done(self@, other@, it.seq(), it.index@ + 1); }
//@ loop 2
    invariant
        self@.len() > other@.len(),
        graph::seq_lists_set_ref(it.seq(), other@),
        scan_in(it.seq(), it.index@, self@),
        it.index@ == it.seq().len() ==> other@.subset_of(self@),
//@ before 2 `return None;`
    proof { lemma_scan_fail(other@, self@, it.seq(), it.index@); lemma_set_cmp(self@, other@); }
//@ after 2 `return None; }`
    proof { lemma_scan_done(other@, self@, it.seq(), it.index@ + 1); }
//@ end
}

impl PartialEq for LocationSet {
//@ fn impl PartialEq for LocationSet :: fn eq nopub
//@ spec
    ensures /*@same_set*/ r == (self@ == other@),
//@ enter
    broadcast use {ordering_eq::axiom_ordering_obeys_eq, ordering_eq::axiom_ordering_eq};
//@ end
}
