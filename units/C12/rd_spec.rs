// ======================================================================================
// units/C12/rd_spec.rs - vocabulary of the reaching-definitions analysis:
//   the operation at a location, the WRITE LIST at a location, `gens` / `kills` exactly as
//   lib/analysis/reaching_definitions.rs computes them, the textbook gen/kill, the transfer function on
//   views (`trans_view`), its abstract form on sets of locations (`trans_locs`), and the elementary
//   facts relating them.  Pure spec + proof; no `//@ fn` holes.
// Included inside `pub mod reaching_definitions` (first file).
// ======================================================================================

pub type PLSet = Set<il::ProgramLocation>;

// ---------------------------------------------------------------------------------------------
// the operation at a location

/// position of the instruction with index `i` in block `blk`
pub open spec fn instr_pos(blk: il::Block, i: usize) -> int {
    choose|p: int| il::instr_at(blk, p, i)
}

/// the operation at location `l` of `f` (None: an edge or an empty block)
pub open spec fn op_at(f: il::Function, l: Loc) -> Option<il::Operation> {
    match l {
        Loc::Instruction(b, i) => {
            let blk = f.control_flow_graph.blocks_view()[b];
            Some(blk.instructions@[instr_pos(blk, i)].operation)
        }
        _ => None,
    }
}

/// the operation a borrowed location points at
pub open spec fn op_of(rfl: il::RefFunctionLocation) -> Option<il::Operation> {
    match rfl {
        il::RefFunctionLocation::Instruction(b, ins) => Some(ins.operation),
        _ => None,
    }
}

/// for a location OF a well-formed function the two readings agree
pub proof fn lemma_op_of_at(f: il::Function, rfl: il::RefFunctionLocation)
    requires f.function_wf(), il::rfl_points_in(f, rfl),
    ensures op_of(rfl) == op_at(f, il::loc_of(rfl)),
{
    match rfl {
        il::RefFunctionLocation::Instruction(b, ins) => {
            let blk = f.control_flow_graph.graph.vertices@[b.index];
            assert(blk == *b);
            assert(blk.block_wf());
            let p = choose|p: int| 0 <= p < b.instructions@.len() && #[trigger] b.instructions@[p] == *ins;
            assert(il::instr_at(blk, p, ins.index));
            let q = instr_pos(blk, ins.index);
            assert(il::instr_at(blk, q, ins.index));
            if p < q { assert(blk.instructions@[p].index != blk.instructions@[q].index); }
            if q < p { assert(blk.instructions@[q].index != blk.instructions@[p].index); }
        }
        _ => {}
    }
}

// ---------------------------------------------------------------------------------------------
// write / read lists at a location

/// THE WRITE LIST at a location: `op_written` of its operation (units/C12/il_rw.rs).
/// None for edges, empty blocks and intrinsics with undeclared effects.
pub open spec fn written_at(f: il::Function, l: Loc) -> Option<Seq<il::Scalar>> {
    match op_at(f, l) {
        Some(op) => il::op_written(op),
        None => None,
    }
}

/// location `l` WRITES scalar `x` (syntactically: `x` is in its write list)
pub open spec fn writes(f: il::Function, l: Loc, x: il::Scalar) -> bool {
    written_at(f, l) matches Some(w) && w.contains(x)
}

/// the condition of edge (h, t), if any
pub open spec fn cond_at(f: il::Function, l: Loc) -> Option<il::Expression> {
    match l {
        Loc::Edge(h, t) => f.control_flow_graph.edges_view()[(h, t)].condition,
        _ => None,
    }
}

/// THE READ LIST at a location: `op_read` of an instruction's operation, the scalars of an edge's condition
pub open spec fn read_at(f: il::Function, l: Loc) -> Option<Seq<il::Scalar>> {
    match l {
        Loc::Instruction(b, i) => il::op_read(op_at(f, l).unwrap()),
        Loc::Edge(h, t) => match cond_at(f, l) { Some(c) => Some(il::expr_scalars(c)), None => None },
        Loc::EmptyBlock(b) => None,
    }
}

/// location `l` READS scalar `x`
pub open spec fn reads(f: il::Function, l: Loc, x: il::Scalar) -> bool {
    read_at(f, l) matches Some(r) && r.contains(x)
}

// ---------------------------------------------------------------------------------------------
// gen / kill EXACTLY as the code computes them

/// `l` is inserted as a "definition": it is an instruction whose write list is declared.  NOTE: this includes
/// Store / Branch / Nop, whose write list is the EMPTY vector (the code iterates the Option, not the vector).
pub open spec fn gens(f: il::Function, l: Loc) -> bool {
    written_at(f, l) is Some
}

/// executing `l` removes definition `d`: the WHOLE write vector of `d` equals the WHOLE write vector of `l`
pub open spec fn kills(f: il::Function, l: Loc, d: Loc) -> bool {
    written_at(f, l) is Some && written_at(f, d) == written_at(f, l)
}

/// the textbook kill: every scalar `d` defines is overwritten by `l`
pub open spec fn kills_textbook(f: il::Function, l: Loc, d: Loc) -> bool {
    written_at(f, l) matches Some(wl) && written_at(f, d) matches Some(wd)
    && forall|x: il::Scalar| wd.contains(x) ==> wl.contains(x)
}

/// the textbook gen: `l` defines at least one scalar
pub open spec fn gens_textbook(f: il::Function, l: Loc) -> bool {
    written_at(f, l) matches Some(w) && w.len() > 0
}

/// `l` writes at most one scalar (Assign, Load, Store, Branch, Nop; intrinsics declaring at most one written scalar)
pub open spec fn single_write(f: il::Function, l: Loc) -> bool {
    written_at(f, l) matches Some(w) ==> w.len() <= 1
}

/// SOUNDNESS of the code's kill w.r.t. the textbook: whatever the code kills, the textbook kills
/// (the code never removes a definition that still is the last writer of some scalar) - for ALL operations.
pub proof fn lemma_kills_sound(f: il::Function, l: Loc, d: Loc)
    requires kills(f, l, d),
    ensures kills_textbook(f, l, d),
{
}

/// COMPLETENESS for single-write definitions and single-write killers that define something:
/// on Assign / Load (and one-scalar intrinsics) the code's kill IS the textbook kill.
pub proof fn lemma_kills_single(f: il::Function, l: Loc, d: Loc)
    requires single_write(f, l), single_write(f, d), gens_textbook(f, d),
    ensures kills(f, l, d) <==> kills_textbook(f, l, d),
{
    if kills_textbook(f, l, d) {
        let wl = written_at(f, l).unwrap();
        let wd = written_at(f, d).unwrap();
        assert(wd.contains(wd[0]));
        assert(wl.contains(wd[0]));
        let i = choose|i: int| 0 <= i < wl.len() && wl[i] == wd[0];
        assert(wl =~= wd);
    }
}

/// the code's gen differs from the textbook gen exactly on declared-but-empty write lists (Store, Branch, Nop, ...)
pub proof fn lemma_gens_vs_textbook(f: il::Function, l: Loc)
    ensures
        gens_textbook(f, l) ==> gens(f, l),
        gens(f, l) && !gens_textbook(f, l) ==> written_at(f, l) == Some(Seq::<il::Scalar>::empty()),
{
    if gens(f, l) && !gens_textbook(f, l) {
        assert(written_at(f, l).unwrap() =~= Seq::<il::Scalar>::empty());
    }
}

// ---------------------------------------------------------------------------------------------
// states: sets of owned program locations of ONE function

/// `k` is (the owned form of) an instruction location of `f`
pub open spec fn is_def_loc(f: il::Function, k: il::ProgramLocation) -> bool {
    k.function_index == f.index
    && (il::fl_loc(k.function_location) matches Loc::Instruction(b, i) && il::instr_valid(f, b, i))
}

/// THE STATE INVARIANT: every member is an instruction location of `f` (so `apply(..).unwrap().instruction().unwrap()` cannot panic)
pub open spec fn defs_ok(f: il::Function, s: PLSet) -> bool {
    forall|k: il::ProgramLocation| #[trigger] s.contains(k) ==> is_def_loc(f, k)
}

/// the abstract location of a member
pub open spec fn kloc(k: il::ProgramLocation) -> Loc { il::fl_loc(k.function_location) }

/// a state as a set of abstract locations
pub open spec fn locs_of(f: il::Function, s: PLSet) -> LSet {
    |d: Loc| s.contains(ploc(f, d))
}

/// THE TRANSFER FUNCTION on views, exactly what `trans` computes:
/// an instruction with a declared write list removes every member with the same write vector and inserts itself
pub open spec fn trans_view(f: il::Function, l: Loc, m: PLSet) -> PLSet {
    if gens(f, l) { m.filter(|k: il::ProgramLocation| !kills(f, l, kloc(k))).insert(ploc(f, l)) } else { m }
}

/// the same on sets of abstract locations
pub open spec fn trans_locs(f: il::Function, l: Loc, s: LSet) -> LSet {
    |d: Loc| if gens(f, l) { d == l || (s(d) && !kills(f, l, d)) } else { s(d) }
}

/// THE TEXTBOOK TRANSFER FUNCTION on sets of abstract locations: an instruction that defines at least one scalar
/// removes the definitions all of whose scalars it overwrites and inserts itself
pub open spec fn trans_locs_textbook(f: il::Function, l: Loc, s: LSet) -> LSet {
    |d: Loc| if gens_textbook(f, l) { d == l || (s(d) && !kills_textbook(f, l, d)) } else { s(d) }
}

/// CODE vs TEXTBOOK, every operation: on REAL definitions (write list non-empty) the code keeps at least what the
/// textbook keeps - it never loses a definition the textbook transfer function retains.
pub proof fn lemma_trans_above_textbook(f: il::Function, l: Loc, s: LSet, d: Loc)
    requires gens_textbook(f, d), trans_locs_textbook(f, l, s)(d),
    ensures trans_locs(f, l, s)(d),
{
    if gens(f, l) && d != l && kills(f, l, d) {
        lemma_kills_sound(f, l, d);
        if !gens_textbook(f, l) {
            assert(written_at(f, l).unwrap() =~= Seq::<il::Scalar>::empty());
        }
    }
}

/// CODE = TEXTBOOK on real definitions when the executed instruction and the definition write at most one scalar
/// each (Assign, Load, Store, Branch, Nop, one-scalar intrinsics).  For an intrinsic that declares SEVERAL written
/// scalars only lemma_trans_above_textbook holds: the code keeps `q = 1` across `intrinsic writes {p, q}` (vectors
/// [q] and [p, q] differ) although the textbook kills it, and keeps `intrinsic writes {p, q}` across another
/// `intrinsic writes {q, p}` (same set, different order).  Sound (a superset), not exact.
pub proof fn lemma_trans_is_textbook_single(f: il::Function, l: Loc, s: LSet, d: Loc)
    requires single_write(f, l), single_write(f, d), gens_textbook(f, d),
    ensures trans_locs(f, l, s)(d) <==> trans_locs_textbook(f, l, s)(d),
{
    lemma_kills_single(f, l, d);
    if gens(f, l) && !gens_textbook(f, l) {
        assert(written_at(f, l).unwrap() =~= Seq::<il::Scalar>::empty());
        assert(written_at(f, d).unwrap().len() > 0);
    }
}

pub open spec fn in_view(s: Option<LocationSet>) -> PLSet {
    match s { Some(x) => x@, None => Set::<il::ProgramLocation>::empty() }
}

pub proof fn lemma_trans_locs(f: il::Function, l: Loc, m: PLSet, d: Loc)
    ensures locs_of(f, trans_view(f, l, m))(d) == trans_locs(f, l, locs_of(f, m))(d),
{
    lemma_ploc_inj(f, d, l);
    assert(kloc(ploc(f, d)) == d);
}

pub proof fn lemma_trans_view_ok(f: il::Function, l: Loc, m: PLSet)
    requires defs_ok(f, m), il::loc_valid(f, l),
    ensures defs_ok(f, trans_view(f, l, m)),
{
    let t = trans_view(f, l, m);
    assert forall|k: il::ProgramLocation| #[trigger] t.contains(k) implies is_def_loc(f, k) by {
        if gens(f, l) && k == ploc(f, l) {
            assert(kloc(k) == l);
        } else {
            assert(m.contains(k));
        }
    }
}

pub proof fn lemma_trans_view_mono(f: il::Function, l: Loc, a: PLSet, b: PLSet)
    requires a.subset_of(b),
    ensures trans_view(f, l, a).subset_of(trans_view(f, l, b)),
{
}
