// ======================================================================================
// units/C12/rd_chains.rs - SPEC LEVEL ONLY: what the use-definition / definition-use chains are in terms of the
// reaching-definitions solution, the scan predicates shared by the loops of `use_def` and `def_use`, and the
// property-level theorems (the chain of l contains the last writer of every scalar l reads; def-use is the
// inverse relation of use-def).
// Included inside `pub mod reaching_definitions` after rd_theory.rs.
// ======================================================================================

/// location `u` USES definition `d`: some scalar written by `d` is read by `u`
pub open spec fn uses(f: il::Function, u: Loc, d: Loc) -> bool {
    exists|x: il::Scalar| reads(f, u, x) && #[trigger] writes(f, d, x)
}

/// definition `k` REACHES `l` BEFORE `l` executes: it is a member of the state of some predecessor of `l`
/// (the join of the reaching definitions of the predecessors; predecessors the solver never reached have no state)
pub open spec fn rd_in_has(f: il::Function, m: Map<il::ProgramLocation, LocationSet>, l: Loc, k: il::ProgramLocation) -> bool {
    exists|p: Loc| il::pred(f, l, p) && #[trigger] m.contains_key(ploc(f, p)) && m[ploc(f, p)]@.contains(k)
}

/// `s` is THE USE-DEFINITION SET of `l`: the definitions reaching `l` before it executes that `l` uses
pub open spec fn is_ud_at(f: il::Function, m: Map<il::ProgramLocation, LocationSet>, l: Loc, s: PLSet) -> bool {
    forall|k: il::ProgramLocation| #![trigger s.contains(k)] s.contains(k) <==> (rd_in_has(f, m, l, k) && uses(f, l, kloc(k)))
}

/// WHAT `use_def` RETURNS w.r.t. the reaching-definitions solution `m`: one entry per location of the solution,
/// holding its use-definition set
pub open spec fn is_use_def(f: il::Function, m: Map<il::ProgramLocation, LocationSet>, ud: Map<il::ProgramLocation, LocationSet>) -> bool {
    &&& ud.dom() == m.dom()
    &&& forall|l: Loc| #![trigger fp_closure(f, true, l)] fp_closure(f, true, l) ==>
            ud.contains_key(ploc(f, l)) && is_ud_at(f, m, l, ud[ploc(f, l)]@)
}

/// the relation a chain map denotes
pub open spec fn chain_has(c: Map<il::ProgramLocation, LocationSet>, a: il::ProgramLocation, b: il::ProgramLocation) -> bool {
    c.contains_key(a) && c[a]@.contains(b)
}

/// WHAT `def_use` RETURNS w.r.t. the solution `m`: (d, u) is in the relation exactly when u is a location of the
/// solution, d reaches u before u executes, and u uses d; every location of the solution is a key
pub open spec fn is_def_use(f: il::Function, m: Map<il::ProgramLocation, LocationSet>, du: Map<il::ProgramLocation, LocationSet>) -> bool {
    &&& m.dom().subset_of(du.dom())
    &&& forall|d: il::ProgramLocation, u: il::ProgramLocation| #![trigger chain_has(du, d, u)] chain_has(du, d, u) <==>
            (m.contains_key(u) && rd_in_has(f, m, kloc(u), d) && uses(f, kloc(u), kloc(d)))
}

// ---------------------------------------------------------------------------------------------
// the scan predicates of the three nested loops (reads of the location x reaching definitions x their writes)

pub type PLPred = spec_fn(il::ProgramLocation) -> bool;

/// the read list the loops iterate: the declared list, or nothing when it is undeclared / absent
pub open spec fn read_list(f: il::Function, l: Loc) -> Seq<il::Scalar> {
    match read_at(f, l) { Some(r) => r, None => Seq::<il::Scalar>::empty() }
}

/// the write list the loops iterate for a definition
pub open spec fn write_list(f: il::Function, d: Loc) -> Seq<il::Scalar> {
    match written_at(f, d) { Some(w) => w, None => Seq::<il::Scalar>::empty() }
}

/// one of the first `i` read scalars is written by `d`
pub open spec fn used_upto(f: il::Function, rs: Seq<il::Scalar>, i: int, d: Loc) -> bool {
    exists|a: int| 0 <= a < i && a < rs.len() && writes(f, d, #[trigger] rs[a])
}

/// `k` is among the first `n` listed items
pub open spec fn seen_upto(items: Seq<&il::ProgramLocation>, n: int, k: il::ProgramLocation) -> bool {
    exists|b: int| 0 <= b < n && b < items.len() && *(#[trigger] items[b]) == k
}

/// `x` is among the first `j` written scalars
pub open spec fn hit_upto(ws: Seq<il::Scalar>, j: int, x: il::Scalar) -> bool {
    exists|c: int| 0 <= c < j && c < ws.len() && #[trigger] ws[c] == x
}

/// OUTER loop (over the read scalars), `i` scalars done
pub open spec fn scan_outer(f: il::Function, rdin: PLSet, rs: Seq<il::Scalar>, i: int, cur: PLPred) -> bool {
    forall|k: il::ProgramLocation| #[trigger] cur(k) <==> (rdin.contains(k) && used_upto(f, rs, i, kloc(k)))
}

/// MIDDLE loop (over the reaching definitions), `n` definitions done for read scalar `i`
pub open spec fn scan_middle(f: il::Function, rdin: PLSet, rs: Seq<il::Scalar>, i: int, items: Seq<&il::ProgramLocation>, n: int, cur: PLPred) -> bool {
    forall|k: il::ProgramLocation| #[trigger] cur(k) <==> (rdin.contains(k) &&
        (used_upto(f, rs, i, kloc(k)) || (seen_upto(items, n, k) && writes(f, kloc(k), rs[i]))))
}

/// INNER loop (over the written scalars of definition `n`), `j` scalars done
pub open spec fn scan_inner(f: il::Function, rdin: PLSet, rs: Seq<il::Scalar>, i: int, items: Seq<&il::ProgramLocation>, n: int, ws: Seq<il::Scalar>, j: int, cur: PLPred) -> bool {
    forall|k: il::ProgramLocation| #[trigger] cur(k) <==> (rdin.contains(k) &&
        (used_upto(f, rs, i, kloc(k)) || (seen_upto(items, n, k) && writes(f, kloc(k), rs[i])) || (k == *items[n] && hit_upto(ws, j, rs[i]))))
}

pub proof fn lemma_scan_outer_init(f: il::Function, rdin: PLSet, rs: Seq<il::Scalar>, cur: PLPred)
    requires forall|k: il::ProgramLocation| !(#[trigger] cur(k)),
    ensures scan_outer(f, rdin, rs, 0, cur),
{
}

pub proof fn lemma_scan_middle_init(f: il::Function, rdin: PLSet, rs: Seq<il::Scalar>, i: int, items: Seq<&il::ProgramLocation>, cur: PLPred)
    requires scan_outer(f, rdin, rs, i, cur),
    ensures scan_middle(f, rdin, rs, i, items, 0, cur),
{
}

pub proof fn lemma_scan_inner_init(f: il::Function, rdin: PLSet, rs: Seq<il::Scalar>, i: int, items: Seq<&il::ProgramLocation>, n: int, ws: Seq<il::Scalar>, cur: PLPred)
    requires scan_middle(f, rdin, rs, i, items, n, cur),
    ensures scan_inner(f, rdin, rs, i, items, n, ws, 0, cur),
{
}

/// one iteration of the inner loop: `cur2` is `cur` plus definition `n` if written scalar `j` is the read scalar
pub proof fn lemma_scan_inner_step(f: il::Function, rdin: PLSet, rs: Seq<il::Scalar>, i: int, items: Seq<&il::ProgramLocation>, n: int, ws: Seq<il::Scalar>, j: int, cur: PLPred, cur2: PLPred)
    requires
        scan_inner(f, rdin, rs, i, items, n, ws, j, cur), 0 <= j < ws.len(), 0 <= n < items.len(), rdin.contains(*items[n]),
        forall|k: il::ProgramLocation| #[trigger] cur2(k) <==> (cur(k) || (k == *items[n] && ws[j] == rs[i])),
    ensures scan_inner(f, rdin, rs, i, items, n, ws, j + 1, cur2),
{
    assert forall|k: il::ProgramLocation| #[trigger] cur2(k) <==> (rdin.contains(k) &&
        (used_upto(f, rs, i, kloc(k)) || (seen_upto(items, n, k) && writes(f, kloc(k), rs[i])) || (k == *items[n] && hit_upto(ws, j + 1, rs[i])))) by {
        if hit_upto(ws, j, rs[i]) {
            let c = choose|c: int| 0 <= c < j && c < ws.len() && #[trigger] ws[c] == rs[i];
            assert(0 <= c < j + 1 && ws[c] == rs[i]);
        }
        if ws[j] == rs[i] { assert(0 <= j < j + 1 && ws[j] == rs[i]); }
        if hit_upto(ws, j + 1, rs[i]) {
            let c = choose|c: int| 0 <= c < j + 1 && c < ws.len() && #[trigger] ws[c] == rs[i];
            if c < j { assert(hit_upto(ws, j, rs[i])); }
        }
        assert(cur(k) <==> (rdin.contains(k) &&
            (used_upto(f, rs, i, kloc(k)) || (seen_upto(items, n, k) && writes(f, kloc(k), rs[i])) || (k == *items[n] && hit_upto(ws, j, rs[i])))));
    }
}

/// the inner loop is done: definition `n` has been handled
pub proof fn lemma_scan_inner_done(f: il::Function, rdin: PLSet, rs: Seq<il::Scalar>, i: int, items: Seq<&il::ProgramLocation>, n: int, ws: Seq<il::Scalar>, j: int, cur: PLPred)
    requires
        scan_inner(f, rdin, rs, i, items, n, ws, j, cur), 0 <= n < items.len(), 0 <= i < rs.len(),
        ws == write_list(f, kloc(*items[n])),
    ensures j == ws.len() ==> scan_middle(f, rdin, rs, i, items, n + 1, cur),
{
    if j != ws.len() { return; }
    let d = kloc(*items[n]);
    assert(hit_upto(ws, j, rs[i]) <==> writes(f, d, rs[i])) by {
        if hit_upto(ws, j, rs[i]) {
            let c = choose|c: int| 0 <= c < j && c < ws.len() && #[trigger] ws[c] == rs[i];
            assert(ws.contains(rs[i]));
        }
        if writes(f, d, rs[i]) {
            let c = choose|c: int| 0 <= c < ws.len() && ws[c] == rs[i];
            assert(0 <= c < j && ws[c] == rs[i]);
        }
    }
    assert forall|k: il::ProgramLocation| #[trigger] cur(k) <==> (rdin.contains(k) &&
        (used_upto(f, rs, i, kloc(k)) || (seen_upto(items, n + 1, k) && writes(f, kloc(k), rs[i])))) by {
        if seen_upto(items, n, k) {
            let b = choose|b: int| 0 <= b < n && b < items.len() && *(#[trigger] items[b]) == k;
            assert(0 <= b < n + 1 && *items[b] == k);
        }
        if k == *items[n] { assert(0 <= n < n + 1 && *items[n] == k); }
        if seen_upto(items, n + 1, k) {
            let b = choose|b: int| 0 <= b < n + 1 && b < items.len() && *(#[trigger] items[b]) == k;
            if b < n { assert(seen_upto(items, n, k)); }
        }
    }
}

/// the middle loop is done: read scalar `i` has been handled
pub proof fn lemma_scan_middle_done(f: il::Function, rdin: PLSet, rs: Seq<il::Scalar>, i: int, items: Seq<&il::ProgramLocation>, n: int, cur: PLPred)
    requires scan_middle(f, rdin, rs, i, items, n, cur), graph::seq_lists_set_ref(items, rdin), 0 <= i < rs.len(),
    ensures n == items.len() ==> scan_outer(f, rdin, rs, i + 1, cur),
{
    if n != items.len() { return; }
    graph::lemma_seq_lists_set_ref(items, rdin);
    assert forall|k: il::ProgramLocation| #[trigger] cur(k) <==> (rdin.contains(k) && used_upto(f, rs, i + 1, kloc(k))) by {
        let d = kloc(k);
        if used_upto(f, rs, i, d) {
            let a = choose|a: int| 0 <= a < i && a < rs.len() && writes(f, d, #[trigger] rs[a]);
            assert(0 <= a < i + 1 && writes(f, d, rs[a]));
        }
        if rdin.contains(k) && writes(f, d, rs[i]) {
            let b = choose|b: int| 0 <= b < items.len() && *(#[trigger] items[b]) == k;
            assert(seen_upto(items, n, k));
            assert(0 <= i < i + 1 && writes(f, d, rs[i]));
        }
        if used_upto(f, rs, i + 1, d) {
            let a = choose|a: int| 0 <= a < i + 1 && a < rs.len() && writes(f, d, #[trigger] rs[a]);
            if a < i { assert(used_upto(f, rs, i, d)); }
        }
    }
}

/// the outer loop is done: `cur` holds exactly the reaching definitions the location uses
pub proof fn lemma_scan_outer_done(f: il::Function, rdin: PLSet, l: Loc, rs: Seq<il::Scalar>, i: int, cur: PLPred)
    requires scan_outer(f, rdin, rs, i, cur), rs == read_list(f, l),
    ensures i == rs.len() ==> forall|k: il::ProgramLocation| #[trigger] cur(k) <==> (rdin.contains(k) && uses(f, l, kloc(k))),
{
    if i != rs.len() { return; }
    assert forall|k: il::ProgramLocation| #[trigger] cur(k) <==> (rdin.contains(k) && uses(f, l, kloc(k))) by {
        let d = kloc(k);
        if used_upto(f, rs, i, d) {
            let a = choose|a: int| 0 <= a < i && a < rs.len() && writes(f, d, #[trigger] rs[a]);
            assert(rs.contains(rs[a]));
            assert(reads(f, l, rs[a]) && writes(f, d, rs[a]));
        }
        if uses(f, l, d) {
            let x = choose|x: il::Scalar| reads(f, l, x) && #[trigger] writes(f, d, x);
            let a = choose|a: int| 0 <= a < rs.len() && rs[a] == x;
            assert(0 <= a < i && writes(f, d, rs[a]));
        }
    }
}

/// nothing is read: nothing is used
pub proof fn lemma_no_reads(f: il::Function, l: Loc, d: Loc)
    requires read_list(f, l).len() == 0,
    ensures !uses(f, l, d),
{
    if uses(f, l, d) {
        let x = choose|x: il::Scalar| reads(f, l, x) && #[trigger] writes(f, d, x);
        let r = read_at(f, l).unwrap();
        let a = choose|a: int| 0 <= a < r.len() && r[a] == x;
    }
}

/// `is_rd_in` (what reaching_definitions_in ensures) in terms of `rd_in_has`
pub proof fn lemma_rd_in_has(f: il::Function, m: Map<il::ProgramLocation, LocationSet>, l: Loc, s: PLSet)
    requires is_rd_in(f, m, l, s),
    ensures forall|k: il::ProgramLocation| #![trigger s.contains(k)] #![trigger rd_in_has(f, m, l, k)] s.contains(k) <==> rd_in_has(f, m, l, k),
{
    assert forall|k: il::ProgramLocation| #![trigger s.contains(k)] #![trigger rd_in_has(f, m, l, k)] s.contains(k) <==> rd_in_has(f, m, l, k) by {
        if s.contains(k) {}
        if rd_in_has(f, m, l, k) { assert(s.contains(k)); }
    }
}

/// the members of an in-state are instruction locations of the function
pub proof fn lemma_rd_in_defs_ok(fr: &il::Function, m: Map<il::ProgramLocation, LocationSet>, l: Loc, s: PLSet)
    requires is_rd_solution(fr, m), is_rd_in(*fr, m, l, s),
    ensures defs_ok(*fr, s),
{
    let f = *fr;
    assert forall|k: il::ProgramLocation| #[trigger] s.contains(k) implies is_def_loc(f, k) by {
        let p = choose|p: Loc| il::pred(f, l, p) && #[trigger] m.contains_key(ploc(f, p)) && m[ploc(f, p)]@.contains(k);
        assert(opt_inv(&rda_of(fr), fview(m, f)(p)));
    }
}

// ---------------------------------------------------------------------------------------------
// property-level theorems

/// two solutions of the same function agree (the least solution is unique up to the order; here: same key set,
/// same sets of definitions)
pub proof fn lemma_solution_unique(fr: &il::Function, m1: Map<il::ProgramLocation, LocationSet>, m2: Map<il::ProgramLocation, LocationSet>)
    requires fr.function_wf(), is_rd_solution(fr, m1), is_rd_solution(fr, m2),
    ensures
        m1.dom() == m2.dom(),
        forall|k: il::ProgramLocation| #![trigger m1[k]] #![trigger m2[k]] m1.contains_key(k) ==> m1[k]@ == m2[k]@,
{
    let f = *fr;
    let a = rda_of(fr);
    let s1 = fview(m1, f);
    let s2 = fview(m2, f);
    lemma_solution_is_post_fixpoint(&a, f, true, s1);
    lemma_solution_is_post_fixpoint(&a, f, true, s2);
    assert(lm_below(&a, s1, s2));
    assert(lm_below(&a, s2, s1));
    assert forall|k: il::ProgramLocation| m1.contains_key(k) <==> m2.contains_key(k) by {
        if m1.contains_key(k) { lemma_ploc_of(f, k); assert(s1(kloc(k)) is Some); assert(fp_closure(f, true, kloc(k))); assert(s2(kloc(k)) is Some); }
        if m2.contains_key(k) { lemma_ploc_of(f, k); assert(s2(kloc(k)) is Some); assert(fp_closure(f, true, kloc(k))); assert(s1(kloc(k)) is Some); }
    }
    assert(m1.dom() =~= m2.dom());
    assert forall|k: il::ProgramLocation| #![trigger m1[k]] #![trigger m2[k]] m1.contains_key(k) implies m1[k]@ == m2[k]@ by {
        lemma_ploc_of(f, k);
        let l = kloc(k);
        assert(s1(l) == Some(m1[k]));
        assert(s2(l) == Some(m2[k]));
        assert(a.le(m1[k], m2[k]));
        assert(a.le(m2[k], m1[k]));
        assert(m1[k]@ =~= m2[k]@);
    }
}

/// `rd_in_has` does not depend on which of two solutions is consulted
pub proof fn lemma_rd_in_has_unique(fr: &il::Function, m1: Map<il::ProgramLocation, LocationSet>, m2: Map<il::ProgramLocation, LocationSet>, l: Loc, k: il::ProgramLocation)
    requires fr.function_wf(), is_rd_solution(fr, m1), is_rd_solution(fr, m2), rd_in_has(*fr, m1, l, k),
    ensures rd_in_has(*fr, m2, l, k),
{
    let f = *fr;
    lemma_solution_unique(fr, m1, m2);
    let p = choose|p: Loc| il::pred(f, l, p) && #[trigger] m1.contains_key(ploc(f, p)) && m1[ploc(f, p)]@.contains(k);
    assert(m2.dom().contains(ploc(f, p)));
    assert(m1[ploc(f, p)]@ == m2[ploc(f, p)]@);
    assert(il::pred(f, l, p) && m2.contains_key(ploc(f, p)) && m2[ploc(f, p)]@.contains(k));
}

/// THE LAST CLAUSE OF THE PROPERTY: the definition-use chains are exactly the inverse relation of the
/// use-definition chains (for the results of `use_def` and `def_use` on the same function)
pub proof fn theorem_def_use_is_inverse(fr: &il::Function,
        m1: Map<il::ProgramLocation, LocationSet>, ud: Map<il::ProgramLocation, LocationSet>,
        m2: Map<il::ProgramLocation, LocationSet>, du: Map<il::ProgramLocation, LocationSet>,
        d: il::ProgramLocation, u: il::ProgramLocation)
    requires
        fr.function_wf(),
        is_rd_solution(fr, m1), is_use_def(*fr, m1, ud),
        is_rd_solution(fr, m2), is_def_use(*fr, m2, du),
    ensures chain_has(ud, u, d) <==> chain_has(du, d, u),
{
    let f = *fr;
    lemma_solution_unique(fr, m1, m2);
    if chain_has(ud, u, d) {
        assert(m1.dom().contains(u));
        lemma_ploc_of(f, u);
        assert(fview(m1, f)(kloc(u)) is Some);
        assert(fp_closure(f, true, kloc(u)));
        assert(is_ud_at(f, m1, kloc(u), ud[u]@));
        lemma_rd_in_has_unique(fr, m1, m2, kloc(u), d);
        assert(m2.dom().contains(u));
    }
    if chain_has(du, d, u) {
        assert(m2.contains_key(u));
        assert(m1.dom().contains(u));
        lemma_ploc_of(f, u);
        assert(fview(m1, f)(kloc(u)) is Some);
        assert(fp_closure(f, true, kloc(u)));
        lemma_rd_in_has_unique(fr, m2, m1, kloc(u), d);
        assert(is_ud_at(f, m1, kloc(u), ud[u]@));
    }
}

/// THE THIRD CLAUSE OF THE PROPERTY: on every execution, when location l (an instruction or a guarded edge) is
/// about to execute, the use-definition chain of l contains the last writer of every scalar l reads
pub proof fn theorem_use_def_last_writer(fr: &il::Function, m: Map<il::ProgramLocation, LocationSet>, ud: Map<il::ProgramLocation, LocationSet>,
        run: Seq<Config>, k: int, x: il::Scalar, j: int)
    requires
        fr.function_wf(), is_rd_solution(fr, m), is_use_def(*fr, m, ud), is_run(*fr, run), 0 <= k < run.len(),
        reads(*fr, run[k].0, x),
        last_writer(*fr, run[k].1.drop_last(), x, j),
    ensures
        ud.contains_key(ploc(*fr, run[k].0)),
        ud[ploc(*fr, run[k].0)]@.contains(ploc(*fr, run[k].1[j])),
{
    let f = *fr;
    let l = run[k].0;
    lemma_lai(fr, m, run, k);
    if k == 0 {
        assert(run[0].1.drop_last() =~= Seq::<Loc>::empty());
    } else {
        lemma_lai(fr, m, run, k - 1);
        let c1 = run[k - 1];
        assert(exec_step(f, c1, run[k]));
        assert(run[k].1.drop_last() =~= c1.1);
        let d = c1.1[j];
        assert(run[k].1[j] == d);
        assert(locs_of(f, m[ploc(f, c1.0)]@)(d));
        lemma_step_input(f, true, c1.0, l);
        assert(il::pred(f, l, c1.0) && m.contains_key(ploc(f, c1.0)) && m[ploc(f, c1.0)]@.contains(ploc(f, d)));
        assert(rd_in_has(f, m, l, ploc(f, d)));
        assert(kloc(ploc(f, d)) == d);
        assert(reads(f, l, x) && writes(f, d, x));
        assert(is_ud_at(f, m, l, ud[ploc(f, l)]@));
    }
}
