// ======================================================================================
// units/C12/il_rw.rs - the syntactic READ / WRITE sets of the IL:
//   Intrinsic::{written_expressions, read_expressions, scalars_written, scalars_read},
//   Operation::{scalars_read, scalars_written}, Instruction::{scalars_read, scalars_written}.
// REAL text, extracted; proved in THIS unit.
// To be included inside `pub mod il` after il_core.rs (C15; Expression::scalars / expr_scalars are C04's).
// ======================================================================================

// ---------------------------------------------------------------------------------------------
// vocabulary

/// the scalars of a list of expressions, in order, with repetitions
pub open spec fn exprs_scalars(es: Seq<Expression>) -> Seq<Scalar>
    decreases es.len(),
{
    if es.len() == 0 { Seq::<Scalar>::empty() } else { exprs_scalars(es.drop_last()) + expr_scalars(es.last()) }
}

/// the scalars of an optional list of expressions (None = "undeclared")
pub open spec fn opt_exprs_scalars(o: Option<Vec<Expression>>) -> Option<Seq<Scalar>> {
    match o {
        None => None,
        Some(v) => Some(exprs_scalars(v@)),
    }
}

/// THE SYNTACTIC WRITE LIST of an operation: Assign / Load write their destination, an intrinsic the
/// scalars of its declared written expressions (None: effects undeclared), everything else nothing
pub open spec fn op_written(op: Operation) -> Option<Seq<Scalar>> {
    match op {
        Operation::Assign { dst, src } => Some(seq![dst]),
        Operation::Store { index, src } => Some(Seq::<Scalar>::empty()),
        Operation::Load { dst, index } => Some(seq![dst]),
        Operation::Branch { target } => Some(Seq::<Scalar>::empty()),
        Operation::Intrinsic { intrinsic } => opt_exprs_scalars(intrinsic.written_expressions),
        Operation::Nop { placeholder } => Some(Seq::<Scalar>::empty()),
    }
}

/// THE SYNTACTIC READ LIST of an operation (left to right, with repetitions)
pub open spec fn op_read(op: Operation) -> Option<Seq<Scalar>> {
    match op {
        Operation::Assign { dst, src } => Some(expr_scalars(src)),
        Operation::Store { index, src } => Some(expr_scalars(index) + expr_scalars(src)),
        Operation::Load { dst, index } => Some(expr_scalars(index)),
        Operation::Branch { target } => Some(expr_scalars(target)),
        Operation::Intrinsic { intrinsic } => opt_exprs_scalars(intrinsic.read_expressions),
        Operation::Nop { placeholder } => Some(Seq::<Scalar>::empty()),
    }
}

/// the references of `v` point to the scalars `ss`
pub open spec fn refs_are(v: Seq<&Scalar>, ss: Seq<Scalar>) -> bool {
    v.len() == ss.len() && forall|i: int| 0 <= i < v.len() ==> *(#[trigger] v[i]) == ss[i]
}

/// the optional vector of references `r` denotes the optional list `o`
pub open spec fn opt_refs_are(r: Option<Vec<&Scalar>>, o: Option<Seq<Scalar>>) -> bool {
    match o {
        None => r is None,
        Some(ss) => r matches Some(v) && refs_are(v@, ss),
    }
}

pub proof fn lemma_exprs_scalars_step(es: Seq<Expression>, n: int)
    requires 0 <= n < es.len(),
    ensures exprs_scalars(es.take(n + 1)) == exprs_scalars(es.take(n)) + expr_scalars(es[n]),
{
    assert(es.take(n + 1).drop_last() =~= es.take(n));
    assert(es.take(n + 1).last() == es[n]);
}

pub proof fn lemma_refs_append(a: Seq<&Scalar>, sa: Seq<Scalar>, b: Seq<&Scalar>, sb: Seq<Scalar>)
    requires refs_are(a, sa), refs_are(b, sb),
    ensures refs_are(a + b, sa + sb),
{
}

impl Intrinsic {
//@ source lib/il/intrinsic.rs
//@ fn impl Intrinsic :: fn written_expressions
//@ rewrite 1 `self.written_expressions.as_deref()` => `opt_slice::opt_vec_as_slice(&self.written_expressions)` ## R-as-deref: the same conversion through a stand-in carrying the assumed contract of Option<Vec<T>>::as_deref (prelude/opt_slice.rs)
//@ spec
    ensures
        /*@none*/ self.written_expressions is None ==> r is None,
        /*@some*/ self.written_expressions matches Some(v) ==> (r matches Some(s) && s@ == v@),
//@ end

//@ fn impl Intrinsic :: fn read_expressions
//@ rewrite 1 `self.read_expressions.as_deref()` => `opt_slice::opt_vec_as_slice(&self.read_expressions)` ## R-as-deref: the same conversion through a stand-in carrying the assumed contract of Option<Vec<T>>::as_deref (prelude/opt_slice.rs)
//@ spec
    ensures
        /*@none*/ self.read_expressions is None ==> r is None,
        /*@some*/ self.read_expressions matches Some(v) ==> (r matches Some(s) && s@ == v@),
//@ end

//@ fn impl Intrinsic :: fn scalars_written
//@ rewrite 1 `written_expressions .iter() .flat_map(|expression| expression.scalars()) .collect::<Vec<&Scalar>>()` => `{ let mut vf_out: Vec<&Scalar> = Vec::new(); for expression in vf_it: written_expressions.iter() { let mut vf_part = expression.scalars(); vf_out.append(&mut vf_part); } vf_out }` ## R-flat-map-collect: `ITER.flat_map(|x| F).collect::<Vec<_>>()` is by definition the vector that receives, for every item x of ITER in order, all items of F in order; `expression.scalars()` is the original F
//@ closure 0 |written_expressions: &[Expression]| -> (o: Vec<&Scalar>)
    ensures refs_are(o@, exprs_scalars(written_expressions@)),
//@ spec
    ensures
        /*@declared_or_none*/ opt_refs_are(r, opt_exprs_scalars(self.written_expressions)),
//@ loop 0
    invariant
        vf_it.seq().len() == written_expressions@.len(),
        forall|j: int| 0 <= j < vf_it.seq().len() ==> *(#[trigger] vf_it.seq()[j]) == written_expressions@[j],
        refs_are(vf_out@, exprs_scalars(written_expressions@.take(vf_it.index@ as int))),
//@ before 0 `let mut vf_part`
    proof { lemma_exprs_scalars_step(written_expressions@, vf_it.index@ as int); }
//@ before 0 `vf_out }`
    proof { assert(written_expressions@.take(written_expressions@.len() as int) =~= written_expressions@); }
//@ end

//@ fn impl Intrinsic :: fn scalars_read
//@ rewrite 1 `read_expressions .iter() .flat_map(|expression| expression.scalars()) .collect::<Vec<&Scalar>>()` => `{ let mut vf_out: Vec<&Scalar> = Vec::new(); for expression in vf_it: read_expressions.iter() { let mut vf_part = expression.scalars(); vf_out.append(&mut vf_part); } vf_out }` ## R-flat-map-collect: `ITER.flat_map(|x| F).collect::<Vec<_>>()` is by definition the vector that receives, for every item x of ITER in order, all items of F in order; `expression.scalars()` is the original F
//@ closure 0 |read_expressions: &[Expression]| -> (o: Vec<&Scalar>)
    ensures refs_are(o@, exprs_scalars(read_expressions@)),
//@ spec
    ensures
        /*@declared_or_none*/ opt_refs_are(r, opt_exprs_scalars(self.read_expressions)),
//@ loop 0
    invariant
        vf_it.seq().len() == read_expressions@.len(),
        forall|j: int| 0 <= j < vf_it.seq().len() ==> *(#[trigger] vf_it.seq()[j]) == read_expressions@[j],
        refs_are(vf_out@, exprs_scalars(read_expressions@.take(vf_it.index@ as int))),
//@ before 0 `let mut vf_part`
    proof { lemma_exprs_scalars_step(read_expressions@, vf_it.index@ as int); }
//@ before 0 `vf_out }`
    proof { assert(read_expressions@.take(read_expressions@.len() as int) =~= read_expressions@); }
//@ end
}

impl Operation {
//@ source lib/il/operation.rs
//@ fn impl Operation :: fn scalars_read
//@ rewrite 1 `index.scalars().into_iter().chain(src.scalars()).collect()` => `{ let mut vf_a = index.scalars(); let mut vf_b = src.scalars(); vf_a.append(&mut vf_b); vf_a }` ## R-chain-collect: `A.into_iter().chain(B).collect::<Vec<_>>()` is by definition the vector holding the items of A followed by the items of B; A = `index.scalars()` and B = `src.scalars()` are the original expressions, evaluated in the original order
//@ spec
    ensures
        /*@read_list*/ opt_refs_are(r, op_read(*self)),
//@ end

//@ fn impl Operation :: fn scalars_written
//@ spec
    ensures
        /*@write_list*/ opt_refs_are(r, op_written(*self)),
//@ end
}

impl Instruction {
//@ source lib/il/instruction.rs
//@ fn impl Instruction :: fn scalars_written
//@ spec
    ensures
        /*@write_list*/ opt_refs_are(r, op_written(self.operation)),
//@ end

//@ fn impl Instruction :: fn scalars_read
//@ spec
    ensures
        /*@read_list*/ opt_refs_are(r, op_read(self.operation)),
//@ end
}
