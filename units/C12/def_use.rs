// ======================================================================================
// units/C12/def_use.rs - `def_use` (lib/analysis/def_use.rs, with candidate fixes 1 and 2 applied):
// the inverse relation of the use-definition chains: (d -> u) for every location u of the reaching-definitions
// solution and every definition d reaching u BEFORE it executes whose written scalars meet the scalars u reads.
// REAL text, extracted; proved in THIS unit.  Included inside `pub mod def_use`.
// ======================================================================================

// derive(Default) on LocationSet: `LocationSet { locations: HashSet::default() }`, the empty set.
// ASSUMED (derive = field-wise default; std documents HashSet::default as "creates an empty HashSet").
impl Default for LocationSet {
    #[verifier::external_body]
    fn default() -> (r: LocationSet) ensures r@ == Set::<il::ProgramLocation>::empty() { unimplemented!() }
}

/// the definitions related to use `u` in the chain map `du`, as a predicate
pub open spec fn chain_pred(du: Map<il::ProgramLocation, LocationSet>, u: il::ProgramLocation) -> PLPred {
    |d: il::ProgramLocation| chain_has(du, d, u)
}

/// FRAME of the work on use `u`: pairs with another use are untouched, no key disappears
pub open spec fn du_frame(du0: Map<il::ProgramLocation, LocationSet>, du: Map<il::ProgramLocation, LocationSet>, u: il::ProgramLocation) -> bool {
    &&& forall|d: il::ProgramLocation, u2: il::ProgramLocation| #![trigger chain_has(du, d, u2)] u2 != u ==> (chain_has(du, d, u2) <==> chain_has(du0, d, u2))
    &&& forall|k: il::ProgramLocation| #![trigger du.contains_key(k)] du0.contains_key(k) ==> du.contains_key(k)
}

/// the pairs for use `u` are complete: d -> u exactly for the reaching definitions `u` uses
pub open spec fn du_collected(f: il::Function, l: Loc, rdin: PLSet, du: Map<il::ProgramLocation, LocationSet>, u: il::ProgramLocation) -> bool {
    forall|k: il::ProgramLocation| #![trigger chain_has(du, k, u)] chain_has(du, k, u) <==> (rdin.contains(k) && uses(f, l, kloc(k)))
}

/// the pairs for the first `n` keys of the enumeration are in place
pub open spec fn du_scan(f: il::Function, m: Map<il::ProgramLocation, LocationSet>, keys: Seq<&il::ProgramLocation>, n: int, du: Map<il::ProgramLocation, LocationSet>) -> bool {
    &&& forall|d: il::ProgramLocation, u: il::ProgramLocation| #![trigger chain_has(du, d, u)] chain_has(du, d, u) <==>
            (seen_upto(keys, n, u) && rd_in_has(f, m, kloc(u), d) && uses(f, kloc(u), kloc(d)))
    &&& forall|i: int| 0 <= i < n && i < keys.len() ==> du.contains_key(*(#[trigger] keys[i]))
}

/// `du.entry(u).or_default()`: the key is present afterwards, no pair changes
pub proof fn lemma_du_touch(du0: Map<il::ProgramLocation, LocationSet>, u: il::ProgramLocation, v: LocationSet, du1: Map<il::ProgramLocation, LocationSet>)
    requires
        du1 == du0.insert(u, v),
        du0.contains_key(u) ==> v == du0[u],
        !du0.contains_key(u) ==> v@ == Set::<il::ProgramLocation>::empty(),
    ensures
        du1.contains_key(u),
        forall|d: il::ProgramLocation, u2: il::ProgramLocation| #![trigger chain_has(du1, d, u2)] chain_has(du1, d, u2) <==> chain_has(du0, d, u2),
        forall|k: il::ProgramLocation| #![trigger du1.contains_key(k)] du0.contains_key(k) ==> du1.contains_key(k),
{
}

/// `du.entry(d).or_default().insert(u)`: exactly the pair d -> u is added
pub proof fn lemma_du_insert(du: Map<il::ProgramLocation, LocationSet>, d: il::ProgramLocation, u: il::ProgramLocation, du2: Map<il::ProgramLocation, LocationSet>)
    requires
        du2.contains_key(d),
        du2 == du.insert(d, du2[d]),
        du2[d]@ == (if du.contains_key(d) { du[d]@ } else { Set::<il::ProgramLocation>::empty() }).insert(u),
    ensures
        forall|k: il::ProgramLocation| #[trigger] chain_pred(du2, u)(k) <==> (chain_pred(du, u)(k) || k == d),
        du_frame(du, du2, u),
{
    assert forall|k: il::ProgramLocation| #[trigger] chain_pred(du2, u)(k) <==> (chain_pred(du, u)(k) || k == d) by {
        assert(chain_pred(du2, u)(k) == chain_has(du2, k, u));
        assert(chain_pred(du, u)(k) == chain_has(du, k, u));
    }
}

pub proof fn lemma_du_frame_trans(du0: Map<il::ProgramLocation, LocationSet>, du1: Map<il::ProgramLocation, LocationSet>, du2: Map<il::ProgramLocation, LocationSet>, u: il::ProgramLocation)
    requires du_frame(du0, du1, u), du_frame(du1, du2, u),
    ensures du_frame(du0, du2, u),
{
    assert forall|d: il::ProgramLocation, u2: il::ProgramLocation| #![trigger chain_has(du2, d, u2)] u2 != u implies (chain_has(du2, d, u2) <==> chain_has(du0, d, u2)) by {
        assert(chain_has(du1, d, u2) <==> chain_has(du0, d, u2));
    }
    assert forall|k: il::ProgramLocation| #![trigger du2.contains_key(k)] du0.contains_key(k) implies du2.contains_key(k) by {
        assert(du1.contains_key(k));
    }
}

pub proof fn lemma_du_frame_refl(du: Map<il::ProgramLocation, LocationSet>, u: il::ProgramLocation)
    ensures du_frame(du, du, u),
{
}

/// one iteration of the inner loop (the `if` either inserted the pair or did nothing)
pub proof fn lemma_du_inner_step(f: il::Function, rdin: PLSet, rs: Seq<il::Scalar>, i: int, items: Seq<&il::ProgramLocation>, n: int, ws: Seq<il::Scalar>, j: int,
        u: il::ProgramLocation, du: Map<il::ProgramLocation, LocationSet>, du2: Map<il::ProgramLocation, LocationSet>)
    requires
        scan_inner(f, rdin, rs, i, items, n, ws, j, chain_pred(du, u)), 0 <= j < ws.len(), 0 <= n < items.len(), rdin.contains(*items[n]),
        ws[j] == rs[i] ==> forall|k: il::ProgramLocation| #[trigger] chain_pred(du2, u)(k) <==> (chain_pred(du, u)(k) || k == *items[n]),
        ws[j] != rs[i] ==> du2 == du,
    ensures scan_inner(f, rdin, rs, i, items, n, ws, j + 1, chain_pred(du2, u)),
{
    lemma_scan_inner_step(f, rdin, rs, i, items, n, ws, j, chain_pred(du, u), chain_pred(du2, u));
}

/// the outer scan is complete: the pairs for `u` are collected
pub proof fn lemma_du_collected(f: il::Function, l: Loc, rdin: PLSet, rs: Seq<il::Scalar>, i: int, du: Map<il::ProgramLocation, LocationSet>, u: il::ProgramLocation)
    requires rs == read_list(f, l), scan_outer(f, rdin, rs, i, chain_pred(du, u)),
    ensures i == rs.len() ==> du_collected(f, l, rdin, du, u),
{
    if i != rs.len() { return; }
    lemma_scan_outer_done(f, rdin, l, rs, i, chain_pred(du, u));
    assert forall|k: il::ProgramLocation| #![trigger chain_has(du, k, u)] chain_has(du, k, u) <==> (rdin.contains(k) && uses(f, l, kloc(k))) by {
        assert(chain_pred(du, u)(k) == chain_has(du, k, u));
    }
}

/// no pair for `u` yet: the outer scan starts
pub proof fn lemma_du_outer_init(f: il::Function, rdin: PLSet, rs: Seq<il::Scalar>, du: Map<il::ProgramLocation, LocationSet>, u: il::ProgramLocation)
    requires forall|k: il::ProgramLocation| !(#[trigger] chain_has(du, k, u)),
    ensures scan_outer(f, rdin, rs, 0, chain_pred(du, u)),
{
    assert forall|k: il::ProgramLocation| !(#[trigger] chain_pred(du, u)(k)) by { assert(!chain_has(du, k, u)); }
    lemma_scan_outer_init(f, rdin, rs, chain_pred(du, u));
}

/// a location that reads nothing uses nothing
pub proof fn lemma_du_nothing_read(f: il::Function, l: Loc, rdin: PLSet, du: Map<il::ProgramLocation, LocationSet>, u: il::ProgramLocation)
    ensures (read_list(f, l).len() == 0 && (forall|k: il::ProgramLocation| !(#[trigger] chain_has(du, k, u)))) ==> du_collected(f, l, rdin, du, u),
{
    if read_list(f, l).len() == 0 && (forall|k: il::ProgramLocation| !(#[trigger] chain_has(du, k, u))) {
        assert forall|k: il::ProgramLocation| #![trigger chain_has(du, k, u)] chain_has(du, k, u) <==> (rdin.contains(k) && uses(f, l, kloc(k))) by {
            lemma_no_reads(f, l, kloc(k));
        }
    }
}

/// no pair mentions a key that has not been processed yet
pub proof fn lemma_du_fresh(f: il::Function, m: Map<il::ProgramLocation, LocationSet>, keys: Seq<&il::ProgramLocation>, n: int, du: Map<il::ProgramLocation, LocationSet>)
    requires du_scan(f, m, keys, n, du), 0 <= n < keys.len(), keys.no_duplicates(),
    ensures forall|k: il::ProgramLocation| !(#[trigger] chain_has(du, k, *keys[n])),
{
    assert forall|k: il::ProgramLocation| !(#[trigger] chain_has(du, k, *keys[n])) by {
        if chain_has(du, k, *keys[n]) {
            let b = choose|b: int| 0 <= b < n && b < keys.len() && *(#[trigger] keys[b]) == *keys[n];
            assert(keys[b] != keys[n]);
        }
    }
}

pub proof fn lemma_du_scan_step(f: il::Function, m: Map<il::ProgramLocation, LocationSet>, keys: Seq<&il::ProgramLocation>, n: int,
        du0: Map<il::ProgramLocation, LocationSet>, du: Map<il::ProgramLocation, LocationSet>, rdin: PLSet)
    requires
        du_scan(f, m, keys, n, du0), 0 <= n < keys.len(),
        du_frame(du0, du, *keys[n]), du.contains_key(*keys[n]),
        is_rd_in(f, m, kloc(*keys[n]), rdin),
        du_collected(f, kloc(*keys[n]), rdin, du, *keys[n]),
    ensures du_scan(f, m, keys, n + 1, du),
{
    let u = *keys[n];
    lemma_rd_in_has(f, m, kloc(u), rdin);
    assert forall|d: il::ProgramLocation, u2: il::ProgramLocation| #![trigger chain_has(du, d, u2)] chain_has(du, d, u2) <==>
            (seen_upto(keys, n + 1, u2) && rd_in_has(f, m, kloc(u2), d) && uses(f, kloc(u2), kloc(d))) by {
        if u2 == u {
            assert(0 <= n < n + 1 && *keys[n] == u2);
            assert(rdin.contains(d) <==> rd_in_has(f, m, kloc(u), d));
        } else {
            assert(chain_has(du, d, u2) <==> chain_has(du0, d, u2));
            if seen_upto(keys, n, u2) {
                let b = choose|b: int| 0 <= b < n && b < keys.len() && *(#[trigger] keys[b]) == u2;
                assert(0 <= b < n + 1 && *keys[b] == u2);
            }
            if seen_upto(keys, n + 1, u2) {
                let b = choose|b: int| 0 <= b < n + 1 && b < keys.len() && *(#[trigger] keys[b]) == u2;
                assert(b < n);
                assert(seen_upto(keys, n, u2));
            }
        }
    }
    assert forall|i: int| 0 <= i < n + 1 && i < keys.len() implies du.contains_key(*(#[trigger] keys[i])) by {
        if i < n { assert(du0.contains_key(*keys[i])); }
    }
}

pub proof fn lemma_du_scan_done(f: il::Function, m: Map<il::ProgramLocation, LocationSet>, keys: Seq<&il::ProgramLocation>, n: int, du: Map<il::ProgramLocation, LocationSet>)
    requires du_scan(f, m, keys, n, du), 0 <= n <= keys.len(), graph::seq_lists_set_ref(keys, m.dom()),
    ensures n == keys.len() ==> is_def_use(f, m, du),
{
    if n != keys.len() { return; }
    graph::lemma_seq_lists_set_ref(keys, m.dom());
    assert forall|k: il::ProgramLocation| m.dom().contains(k) implies du.dom().contains(k) by {
        let i = choose|i: int| 0 <= i < keys.len() && *(#[trigger] keys[i]) == k;
        assert(du.contains_key(*keys[i]));
    }
    assert forall|d: il::ProgramLocation, u: il::ProgramLocation| #![trigger chain_has(du, d, u)] chain_has(du, d, u) <==>
            (m.contains_key(u) && rd_in_has(f, m, kloc(u), d) && uses(f, kloc(u), kloc(d))) by {
        if seen_upto(keys, n, u) {
            let b = choose|b: int| 0 <= b < n && b < keys.len() && *(#[trigger] keys[b]) == u;
            assert(m.dom().contains(*keys[b]));
        }
        if m.contains_key(u) {
            assert(m.dom().contains(u));
            let i = choose|i: int| 0 <= i < keys.len() && *(#[trigger] keys[i]) == u;
            assert(0 <= i < n && *keys[i] == u);
        }
    }
}

/// nothing to do when the solver's map is empty (cannot happen: the entry location always has a state)
pub proof fn lemma_du_empty(f: il::Function, m: Map<il::ProgramLocation, LocationSet>, keys: Seq<&il::ProgramLocation>)
    ensures du_scan(f, m, keys, 0, Map::<il::ProgramLocation, LocationSet>::empty()),
{
}

//@ source lib/analysis/def_use.rs
//@ fn fn def_use loops=7
//@ attr #[verifier::loop_isolation(false)]
//@ rewrite 1 `for location in rd.keys() {` => `for location in it0: rd.keys() {` ## R-ghost-iter-name: names the ghost iterator of the for loop so that invariants can mention it; no executable change
//@ rewrite 1 `du.entry(location.clone()).or_default();` => `hashmap_entry::entry_or_default(&mut du, location.clone());` ## R-entry-or-default: the same call through a stand-in carrying the assumed contract of HashMap::entry(..).or_default() (prelude/hashmap_entry.rs)
//@ rewrite 2 `du.entry(` => `hashmap_entry::entry_or_default(&mut du,` ## R-entry-or-default: `M.entry(K).or_default()` is `entry_or_default(&mut M, K)` (prelude/hashmap_entry.rs), part 1 of 2; K stays the original tokens
//@ rewrite 2 `.or_default() .insert(` => `.insert(` ## R-entry-or-default: part 2 of 2 (the stand-in already returns the `&mut V` that `or_default()` returned; the following `.insert(..)` is the original call)
//@ rewrite 1 `}) }) }),` => `} } } },` ## R-for-each-close: closes the loop over the written scalars, the loop over the reaching definitions, the loop over the read scalars and the block of the match arm (closing parts of the three rewrites below)
//@ rewrite 1 `}) } }) })` => `} } } }` ## R-for-each-close: closes the loop over the written scalars, the `if let`, the loop over the reaching definitions and the loop over the read scalars
//@ rewrite 1 `instruction .operation() .scalars_read() .into_iter() .flatten() .for_each(|scalar_read| {` => `{ let vf_reads: Vec<&il::Scalar> = match instruction.operation().scalars_read() { Some(vf_v) => vf_v, None => Vec::new() }; for scalar_read in vf_it1: vf_reads {` ## R-opt-flatten-for-each: `OPT.into_iter().flatten()` (OPT: Option<Vec<T>>) yields the items of the vector if OPT is Some and nothing if it is None, i.e. it iterates `match OPT { Some(v) => v, None => Vec::new() }`; `ITER.for_each(|x| BODY)` is by definition `for x in ITER { BODY }`; OPT and BODY stay the original tokens
//@ rewrite 2 `rd_in.locations().iter().for_each(|rd| {` => `for rd in vf_it2: rd_in.locations().iter() {` ## R-for-each: `ITER.for_each(|x| BODY)` is by definition `for x in ITER { BODY }` (ITER and BODY stay the original tokens)
//@ rewrite 1 `rd.function_location() .apply(function) .unwrap() .instruction() .unwrap() .operation() .scalars_written() .into_iter() .flatten() .for_each(|scalar_written| {` => `let vf_rfl = rd.function_location().apply(function).unwrap(); let vf_ws: Vec<&il::Scalar> = match vf_rfl.instruction().unwrap().operation().scalars_written() { Some(vf_v) => vf_v, None => Vec::new() }; for scalar_written in vf_it3: vf_ws {` ## R-opt-flatten-for-each: as above; the receiver chain stays the original tokens, its first temporary (the applied location, which the instruction reference borrows from) is bound to a local so that it lives as long as it did inside the original single expression
//@ rewrite 1 `condition.scalars().into_iter().for_each(|scalar_read| {` => `let vf_reads: Vec<&il::Scalar> = condition.scalars(); for scalar_read in vf_it1: vf_reads {` ## R-for-each: as above (the iterated vector is bound to a local first)
//@ rewrite 1 `scalars_written.into_iter().for_each(|scalar_written| {` => `for scalar_written in vf_it3: scalars_written {` ## R-for-each: as above
//@ spec
    requires function.function_wf(),
    ensures
        /*@no_entry*/ function.control_flow_graph.entry is None ==> r == Err::<HashMap<il::ProgramLocation, LocationSet>, Error>(Error::FixedPointRequiresEntry),
        /*@inverse_chains*/ r matches Ok(du) ==> exists|m: Map<il::ProgramLocation, LocationSet>| #[trigger] is_rd_solution(function, m) && is_def_use(*function, m, du@),
        /*@errors*/ r matches Err(e) ==> (function.control_flow_graph.entry is None && e == Error::FixedPointRequiresEntry)
            || (il::entry_loc(*function) is Some && e == Error::FixedPointMaxSteps),
//@ enter
    broadcast use {location_hash::axiom_program_location_obeys_key_model};
    let ghost f = *function;
//@ before 0 `let mut du`
    let ghost m = rd@;
    proof { assert(is_rd_solution(function, m)); }
//@ before 0 `for location in it0: rd.keys() {`
    proof {
        if m.dom().len() == 0 {
            m.dom().lemma_len0_is_empty();
            assert(m.dom() =~= Set::<il::ProgramLocation>::empty());
            assert(is_def_use(f, m, du@));
        }
    }
//@ loop 0
    invariant
        graph::seq_lists_set_ref(it0.seq(), m.dom()),
        du_scan(f, m, it0.seq(), it0.index@, du@),
        it0.index@ == it0.seq().len() ==> is_def_use(f, m, du@),
//@ before 0 `hashmap_entry::entry_or_default(&mut du, location.clone());`
    let ghost u = *location;
    let ghost l = kloc(u);
    let ghost du0 = du@;
    proof {
        graph::lemma_seq_lists_set_ref(it0.seq(), m.dom());
        assert(m.contains_key(u));
        lemma_ploc_of(f, u);
        assert(fview(m, f)(l) is Some);
        lemma_closure_valid(f, true, l);
        lemma_valid_applies(f, location.function_location);
        lemma_du_fresh(f, m, it0.seq(), it0.index@, du0);
    }
//@ after 0 `hashmap_entry::entry_or_default(&mut du, location.clone());`
    let ghost du1 = du@;
    proof {
        lemma_du_touch(du0, u, du1[u], du1);
        assert(du_frame(du0, du1, u));
        assert forall|k: il::ProgramLocation| !(#[trigger] chain_has(du1, k, u)) by { assert(!chain_has(du0, k, u)); }
    }
//@ after 0 `let rfl = location.function_location().apply(function).unwrap();`
    proof {
        assert(il::rfl_in(f, rfl) && il::loc_of(rfl) == l);
        lemma_op_of_at(f, rfl);
    }
//@ before 0 `match rfl {`
    let ghost rdin = rd_in@;
    proof {
        assert(is_rd_in(f, m, l, rdin));
        lemma_rd_in_defs_ok(function, m, l, rdin);
        lemma_len0(rdin);
    }
// ---------------- Instruction arm
//@ before 0 `for scalar_read in vf_it1: vf_reads { for rd in vf_it2: rd_in.locations().iter() { let vf_rfl`
    let ghost rs = read_list(f, l);
    let ghost reads_v = vf_reads@;
    proof {
        assert(il::refs_are(reads_v, rs));
        lemma_du_outer_init(f, rdin, rs, du@, u);
        lemma_du_collected(f, l, rdin, rs, 0, du@, u);
    }
//@ loop 1
    invariant
        vf_it1.seq() == reads_v,
        du_frame(du1, du@, u), du@.contains_key(u),
        scan_outer(f, rdin, rs, vf_it1.index@ as int, chain_pred(du@, u)),
        vf_it1.index@ == vf_it1.seq().len() ==> du_collected(f, l, rdin, du@, u),
//@ before 0 `for rd in vf_it2: rd_in.locations().iter() { let vf_rfl`
    let ghost i1 = vf_it1.index@ as int;
    proof {
        assert(*scalar_read == rs[i1]);
        if rdin.len() == 0 { assert(scan_outer(f, rdin, rs, i1 + 1, chain_pred(du@, u))); }
    }
//@ loop 2
    invariant
        du_frame(du1, du@, u), du@.contains_key(u),
        graph::seq_lists_set_ref(vf_it2.seq(), rdin),
        scan_middle(f, rdin, rs, i1, vf_it2.seq(), vf_it2.index@, chain_pred(du@, u)),
        vf_it2.index@ == vf_it2.seq().len() ==> scan_outer(f, rdin, rs, i1 + 1, chain_pred(du@, u)),
//@ before 0 `let vf_rfl`
    let ghost n = vf_it2.index@;
    let ghost dk = *rd;
    let ghost ws = write_list(f, kloc(dk));
    proof {
        graph::lemma_seq_lists_set_ref(vf_it2.seq(), rdin);
        assert(rdin.contains(dk));
        assert(is_def_loc(f, dk));
        assert forall|x: il::RefFunctionLocation| #[trigger] il::rfl_points_in(f, x) implies op_of(x) == op_at(f, il::loc_of(x)) by {
            lemma_op_of_at(f, x);
        }
    }
//@ before 0 `for scalar_written in vf_it3: vf_ws {`
    let ghost ws_v = vf_ws@;
    proof {
        assert(il::refs_are(ws_v, ws));
        lemma_scan_inner_init(f, rdin, rs, i1, vf_it2.seq(), n, ws, chain_pred(du@, u));
        lemma_scan_inner_done(f, rdin, rs, i1, vf_it2.seq(), n, ws, 0, chain_pred(du@, u));
    }
//@ loop 3
    invariant
        vf_it3.seq() == ws_v,
        du_frame(du1, du@, u), du@.contains_key(u),
        scan_inner(f, rdin, rs, i1, vf_it2.seq(), n, ws, vf_it3.index@ as int, chain_pred(du@, u)),
        vf_it3.index@ == vf_it3.seq().len() ==> scan_middle(f, rdin, rs, i1, vf_it2.seq(), n + 1, chain_pred(du@, u)),
//@ before 0 `if scalar_written == scalar_read {`
    let ghost j3 = vf_it3.index@ as int;
    let ghost dua = du@;
    proof { assert(*scalar_written == ws[j3]); }
//@ before 0 `} } } },`
    proof {
        if ws[j3] == rs[i1] {
            lemma_du_insert(dua, dk, u, du@);
            lemma_du_frame_trans(du1, dua, du@, u);
        }
        lemma_du_inner_step(f, rdin, rs, i1, vf_it2.seq(), n, ws, j3, u, dua, du@);
        lemma_scan_inner_done(f, rdin, rs, i1, vf_it2.seq(), n, ws, j3 + 1, chain_pred(du@, u));
    }
//@ before 0 `} } },`
    proof { lemma_scan_middle_done(f, rdin, rs, i1, vf_it2.seq(), n + 1, chain_pred(du@, u)); }
//@ before 0 `} },`
    proof { lemma_du_collected(f, l, rdin, rs, vf_it1.index@ + 1, du@, u); }
// ---------------- Edge arm
//@ before 0 `if let Some(condition) = edge.condition() {`
    proof {
        assert(il::edge_of(f, *edge));
        assert(cond_at(f, l) == edge.condition);
    }
//@ before 1 `for scalar_read in vf_it1: vf_reads {`
    let ghost rs = read_list(f, l);
    let ghost reads_v = vf_reads@;
    proof {
        assert(il::refs_are(reads_v, rs));
        lemma_du_outer_init(f, rdin, rs, du@, u);
        lemma_du_collected(f, l, rdin, rs, 0, du@, u);
    }
//@ loop 4
    invariant
        vf_it1.seq() == reads_v,
        du_frame(du1, du@, u), du@.contains_key(u),
        scan_outer(f, rdin, rs, vf_it1.index@ as int, chain_pred(du@, u)),
        vf_it1.index@ == vf_it1.seq().len() ==> du_collected(f, l, rdin, du@, u),
//@ before 1 `for rd in vf_it2: rd_in.locations().iter() {`
    let ghost i1 = vf_it1.index@ as int;
    proof {
        assert(*scalar_read == rs[i1]);
        if rdin.len() == 0 { assert(scan_outer(f, rdin, rs, i1 + 1, chain_pred(du@, u))); }
    }
//@ loop 5
    invariant
        du_frame(du1, du@, u), du@.contains_key(u),
        graph::seq_lists_set_ref(vf_it2.seq(), rdin),
        scan_middle(f, rdin, rs, i1, vf_it2.seq(), vf_it2.index@, chain_pred(du@, u)),
        vf_it2.index@ == vf_it2.seq().len() ==> scan_outer(f, rdin, rs, i1 + 1, chain_pred(du@, u)),
//@ before 0 `if let Some(scalars_written) = rd`
    let ghost n = vf_it2.index@;
    let ghost dk = *rd;
    let ghost ws = write_list(f, kloc(dk));
    proof {
        graph::lemma_seq_lists_set_ref(vf_it2.seq(), rdin);
        assert(rdin.contains(dk));
        assert(is_def_loc(f, dk));
        assert forall|x: il::RefFunctionLocation| #[trigger] il::rfl_points_in(f, x) implies op_of(x) == op_at(f, il::loc_of(x)) by {
            lemma_op_of_at(f, x);
        }
        lemma_scan_inner_init(f, rdin, rs, i1, vf_it2.seq(), n, ws, chain_pred(du@, u));
        lemma_scan_inner_done(f, rdin, rs, i1, vf_it2.seq(), n, ws, 0, chain_pred(du@, u));
    }
//@ before 0 `for scalar_written in vf_it3: scalars_written {`
    let ghost ws_v = scalars_written@;
    proof { assert(il::refs_are(ws_v, ws)); }
//@ loop 6
    invariant
        vf_it3.seq() == ws_v,
        du_frame(du1, du@, u), du@.contains_key(u),
        scan_inner(f, rdin, rs, i1, vf_it2.seq(), n, ws, vf_it3.index@ as int, chain_pred(du@, u)),
        vf_it3.index@ == vf_it3.seq().len() ==> scan_middle(f, rdin, rs, i1, vf_it2.seq(), n + 1, chain_pred(du@, u)),
//@ before 1 `if scalar_written == scalar_read {`
    let ghost j3 = vf_it3.index@ as int;
    let ghost dua = du@;
    proof { assert(*scalar_written == ws[j3]); }
//@ before 0 `} } } } } } il::RefFunctionLocation::EmptyBlock(_)`
    proof {
        if ws[j3] == rs[i1] {
            lemma_du_insert(dua, dk, u, du@);
            lemma_du_frame_trans(du1, dua, du@, u);
        }
        lemma_du_inner_step(f, rdin, rs, i1, vf_it2.seq(), n, ws, j3, u, dua, du@);
        lemma_scan_inner_done(f, rdin, rs, i1, vf_it2.seq(), n, ws, j3 + 1, chain_pred(du@, u));
    }
//@ before 0 `} } } } il::RefFunctionLocation::EmptyBlock(_)`
    proof { lemma_scan_middle_done(f, rdin, rs, i1, vf_it2.seq(), n + 1, chain_pred(du@, u)); }
//@ before 0 `} } } il::RefFunctionLocation::EmptyBlock(_)`
    proof { lemma_du_collected(f, l, rdin, rs, vf_it1.index@ + 1, du@, u); }
// ---------------- the pairs for this key are complete
//@ before 0 `} Ok(du)`
    proof {
        lemma_du_nothing_read(f, l, rdin, du@, u);
        lemma_du_frame_trans(du0, du1, du@, u);
        lemma_du_scan_step(f, m, it0.seq(), it0.index@, du0, du@, rdin);
        lemma_du_scan_done(f, m, it0.seq(), it0.index@ + 1, du@);
    }
//@ end
