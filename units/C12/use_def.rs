// ======================================================================================
// units/C12/use_def.rs - `use_def` (lib/analysis/use_def.rs, with candidate fixes 1 and 2 applied):
// for every location of the reaching-definitions solution, the definitions reaching it BEFORE it executes
// whose written scalars meet the scalars the location reads (instruction operands / edge condition).
// REAL text, extracted; proved in THIS unit.  Included inside `pub mod use_def`.
// ======================================================================================

/// the set a LocationSet denotes, as a predicate
pub open spec fn set_pred(s: PLSet) -> PLPred { |k: il::ProgramLocation| s.contains(k) }

/// the entries for the first `n` keys of the enumeration are in place
pub open spec fn ud_scan(f: il::Function, m: Map<il::ProgramLocation, LocationSet>, keys: Seq<&il::ProgramLocation>, n: int, ud: Map<il::ProgramLocation, LocationSet>) -> bool {
    &&& forall|k: il::ProgramLocation| #![trigger ud.contains_key(k)] ud.contains_key(k) <==> (exists|i: int| 0 <= i < n && i < keys.len() && *(#[trigger] keys[i]) == k)
    &&& forall|i: int| 0 <= i < n && i < keys.len() ==> is_ud_at(f, m, kloc(*(#[trigger] keys[i])), ud[*keys[i]]@)
}

pub proof fn lemma_ud_scan_step(f: il::Function, m: Map<il::ProgramLocation, LocationSet>, keys: Seq<&il::ProgramLocation>, n: int,
        ud: Map<il::ProgramLocation, LocationSet>, v: LocationSet)
    requires
        ud_scan(f, m, keys, n, ud), 0 <= n < keys.len(), keys.no_duplicates(),
        is_ud_at(f, m, kloc(*keys[n]), v@),
    ensures ud_scan(f, m, keys, n + 1, ud.insert(*keys[n], v)),
{
    let ud2 = ud.insert(*keys[n], v);
    assert forall|k: il::ProgramLocation| #![trigger ud2.contains_key(k)] ud2.contains_key(k) <==> (exists|i: int| 0 <= i < n + 1 && i < keys.len() && *(#[trigger] keys[i]) == k) by {
        if ud2.contains_key(k) {
            if k == *keys[n] { assert(*keys[n] == k); }
            else { assert(ud.contains_key(k)); let i = choose|i: int| 0 <= i < n && i < keys.len() && *(#[trigger] keys[i]) == k; assert(*keys[i] == k); }
        }
        if exists|i: int| 0 <= i < n + 1 && i < keys.len() && *(#[trigger] keys[i]) == k {
            let i = choose|i: int| 0 <= i < n + 1 && i < keys.len() && *(#[trigger] keys[i]) == k;
            if i < n { assert(ud.contains_key(k)); }
        }
    }
    assert forall|i: int| 0 <= i < n + 1 && i < keys.len() implies is_ud_at(f, m, kloc(*(#[trigger] keys[i])), ud2[*keys[i]]@) by {
        if i < n {
            assert(keys[i] != keys[n]);
            assert(*keys[i] != *keys[n]);
        }
    }
}

pub proof fn lemma_ud_scan_done(f: il::Function, m: Map<il::ProgramLocation, LocationSet>, keys: Seq<&il::ProgramLocation>, n: int, ud: Map<il::ProgramLocation, LocationSet>)
    requires
        ud_scan(f, m, keys, n, ud), 0 <= n <= keys.len(), graph::seq_lists_set_ref(keys, m.dom()),
        fkeys_ok(m, f), solution_domain(f, true, fview(m, f)),
    ensures n == keys.len() ==> is_use_def(f, m, ud),
{
    if n != keys.len() { return; }
    graph::lemma_seq_lists_set_ref(keys, m.dom());
    assert forall|k: il::ProgramLocation| ud.dom().contains(k) <==> m.dom().contains(k) by {
        if ud.contains_key(k) { let i = choose|i: int| 0 <= i < keys.len() && *(#[trigger] keys[i]) == k; assert(m.dom().contains(*keys[i])); }
        if m.dom().contains(k) { let i = choose|i: int| 0 <= i < keys.len() && *(#[trigger] keys[i]) == k; assert(ud.contains_key(k)); }
    }
    assert(ud.dom() =~= m.dom());
    assert forall|l: Loc| #![trigger fp_closure(f, true, l)] fp_closure(f, true, l) implies
            ud.contains_key(ploc(f, l)) && is_ud_at(f, m, l, ud[ploc(f, l)]@) by {
        assert(fview(m, f)(l) is Some);
        assert(m.dom().contains(ploc(f, l)));
        let i = choose|i: int| 0 <= i < keys.len() && *(#[trigger] keys[i]) == ploc(f, l);
        lemma_ploc_inj(f, l, l);
        assert(kloc(*keys[i]) == l);
    }
}

/// nothing to do when the solver's map is empty (cannot happen: the entry location always has a state)
pub proof fn lemma_ud_empty(f: il::Function, m: Map<il::ProgramLocation, LocationSet>)
    requires solution_domain(f, true, fview(m, f)),
    ensures m.dom().len() == 0 ==> is_use_def(f, m, Map::<il::ProgramLocation, LocationSet>::empty()),
{
    if m.dom().len() == 0 {
        m.dom().lemma_len0_is_empty();
        assert(m.dom() =~= Set::<il::ProgramLocation>::empty());
        assert(Map::<il::ProgramLocation, LocationSet>::empty().dom() =~= m.dom());
        assert forall|l: Loc| #![trigger fp_closure(f, true, l)] fp_closure(f, true, l) implies false by {
            assert(fview(m, f)(l) is Some);
            assert(m.dom().contains(ploc(f, l)));
        }
    }
}

/// an empty set of definitions is the use-definition set of a location that reads nothing
pub proof fn lemma_ud_nothing_read(f: il::Function, m: Map<il::ProgramLocation, LocationSet>, l: Loc, s: PLSet)
    requires read_list(f, l).len() == 0, s == Set::<il::ProgramLocation>::empty(),
    ensures is_ud_at(f, m, l, s),
{
    assert forall|k: il::ProgramLocation| #![trigger s.contains(k)] s.contains(k) <==> (rd_in_has(f, m, l, k) && uses(f, l, kloc(k))) by {
        lemma_no_reads(f, l, kloc(k));
    }
}

/// the outer scan is complete: the collected set is the use-definition set
pub proof fn lemma_ud_collected(f: il::Function, m: Map<il::ProgramLocation, LocationSet>, l: Loc, rdin: PLSet, rs: Seq<il::Scalar>, i: int, s: PLSet)
    requires is_rd_in(f, m, l, rdin), rs == read_list(f, l), scan_outer(f, rdin, rs, i, set_pred(s)),
    ensures i == rs.len() ==> is_ud_at(f, m, l, s),
{
    if i != rs.len() { return; }
    lemma_scan_outer_done(f, rdin, l, rs, i, set_pred(s));
    lemma_rd_in_has(f, m, l, rdin);
    assert forall|k: il::ProgramLocation| #![trigger s.contains(k)] s.contains(k) <==> (rd_in_has(f, m, l, k) && uses(f, l, kloc(k))) by {
        assert(set_pred(s)(k) == s.contains(k));
        assert(rdin.contains(k) <==> rd_in_has(f, m, l, k));
    }
}

/// one insert into `defs` as a step of the inner scan
pub proof fn lemma_ud_inner_step(f: il::Function, rdin: PLSet, rs: Seq<il::Scalar>, i: int, items: Seq<&il::ProgramLocation>, n: int, ws: Seq<il::Scalar>, j: int, s: PLSet, s2: PLSet)
    requires
        scan_inner(f, rdin, rs, i, items, n, ws, j, set_pred(s)), 0 <= j < ws.len(), 0 <= n < items.len(), rdin.contains(*items[n]),
        s2 == (if ws[j] == rs[i] { s.insert(*items[n]) } else { s }),
    ensures scan_inner(f, rdin, rs, i, items, n, ws, j + 1, set_pred(s2)),
{
    lemma_scan_inner_step(f, rdin, rs, i, items, n, ws, j, set_pred(s), set_pred(s2));
}

//@ source lib/analysis/use_def.rs
//@ fn fn use_def loops=7
//@ attr #[verifier::loop_isolation(false)]
//@ rewrite 1 `let mut ud = HashMap::new();` => `let mut ud: HashMap<il::ProgramLocation, LocationSet> = HashMap::new();` ## R-type-annot: writes down the type rustc infers for `ud` (the function returns it); needed because the invariant mentions `ud` before the first `insert`
//@ rewrite 1 `for location in rd.keys() {` => `for location in it0: rd.keys() {` ## R-ghost-iter-name: names the ghost iterator of the for loop so that invariants can mention it; no executable change
//@ rewrite 1 `}) }); defs }),` => `} } defs }; } vf_acc },` ## R-fold-close: closes, in this order, the loop over the written scalars, the loop over the reaching definitions, the block whose value `defs` is the new accumulator, the loop over the read scalars, and yields the accumulator as the value of the match arm (closing parts of the three rewrites below)
//@ rewrite 1 `}) } }); defs }, ) }) .unwrap_or_else(LocationSet::new),` => `} } } defs }; } vf_acc } } },` ## R-fold-close: closes the loop over the written scalars, the `if let`, the loop over the reaching definitions, the accumulator block, the loop over the read scalars, the `Some(condition)` arm and the `match` that replaces `OPT.map(|condition| BODY).unwrap_or_else(LocationSet::new)`
//@ rewrite 1 `instruction .operation() .scalars_read() .into_iter() .flatten() .fold(LocationSet::new(), |mut defs, scalar_read| {` => `{ let vf_reads: Vec<&il::Scalar> = match instruction.operation().scalars_read() { Some(vf_v) => vf_v, None => Vec::new() }; let mut vf_acc = LocationSet::new(); for scalar_read in vf_it1: vf_reads { let mut defs = vf_acc; vf_acc = {` ## R-opt-flatten-fold: `OPT.into_iter().flatten()` (OPT: Option<Vec<T>>) yields the items of the vector if OPT is Some and nothing if it is None, i.e. it iterates `match OPT { Some(v) => v, None => Vec::new() }`; `ITER.fold(INIT, |mut acc, x| { BODY; acc })` is by definition `let mut a = INIT; for x in ITER { let mut acc = a; a = { BODY; acc }; } a`; OPT, INIT and BODY stay the original tokens
//@ rewrite 2 `rd_in.locations().iter().for_each(|rd| {` => `for rd in vf_it2: rd_in.locations().iter() {` ## R-for-each: `ITER.for_each(|x| BODY)` is by definition `for x in ITER { BODY }` (ITER and BODY stay the original tokens)
//@ rewrite 1 `rd.function_location() .apply(function) .unwrap() .instruction() .unwrap() .operation() .scalars_written() .into_iter() .flatten() .for_each(|scalar_written| {` => `let vf_rfl = rd.function_location().apply(function).unwrap(); let vf_ws: Vec<&il::Scalar> = match vf_rfl.instruction().unwrap().operation().scalars_written() { Some(vf_v) => vf_v, None => Vec::new() }; for scalar_written in vf_it3: vf_ws {` ## R-opt-flatten-for-each: as above (R-opt-flatten, R-for-each); the receiver chain stays the original tokens, its first temporary (the applied location, which the instruction reference borrows from) is bound to a local so that it lives as long as it did inside the original single expression
//@ rewrite 1 `edge .condition() .map(|condition| {` => `{ let vf_cond = edge.condition(); match vf_cond { None => LocationSet::new(), Some(condition) => {` ## R-opt-map-or-else: `OPT.map(|x| { BODY }).unwrap_or_else(F)` is by definition `{ let o = OPT; match o { None => F(), Some(x) => { BODY } } }`; F = `LocationSet::new`
//@ rewrite 1 `condition.scalars().into_iter().fold( LocationSet::new(), |mut defs, scalar_read| {` => `let vf_reads: Vec<&il::Scalar> = condition.scalars(); let mut vf_acc = LocationSet::new(); for scalar_read in vf_it1: vf_reads { let mut defs = vf_acc; vf_acc = {` ## R-fold: as above (the iterated vector is bound to a local first)
//@ rewrite 1 `scalars_written.into_iter().for_each(|scalar_written| {` => `for scalar_written in vf_it3: scalars_written {` ## R-for-each: as above
//@ spec
    requires function.function_wf(),
    ensures
        /*@no_entry*/ function.control_flow_graph.entry is None ==> r == Err::<HashMap<il::ProgramLocation, LocationSet>, Error>(Error::FixedPointRequiresEntry),
        /*@chains*/ r matches Ok(ud) ==> exists|m: Map<il::ProgramLocation, LocationSet>| #[trigger] is_rd_solution(function, m) && is_use_def(*function, m, ud@),
        /*@errors*/ r matches Err(e) ==> (function.control_flow_graph.entry is None && e == Error::FixedPointRequiresEntry)
            || (il::entry_loc(*function) is Some && e == Error::FixedPointMaxSteps),
//@ enter
    broadcast use {location_hash::axiom_program_location_obeys_key_model};
    let ghost f = *function;
//@ before 0 `let mut ud`
    let ghost m = rd@;
    proof { assert(is_rd_solution(function, m)); }
//@ after 0 `let mut ud: HashMap<il::ProgramLocation, LocationSet> = HashMap::new();`
    proof { lemma_ud_empty(f, m); }
//@ loop 0
    invariant
        f == *function, function.function_wf(), m == rd@,
        is_rd_solution(function, m),
        graph::seq_lists_set_ref(it0.seq(), m.dom()),
        ud_scan(f, m, it0.seq(), it0.index@, ud@),
        it0.index@ == it0.seq().len() ==> is_use_def(f, m, ud@),
//@ before 0 `let rfl = location.function_location().apply(function).unwrap();`
    let ghost l = kloc(*location);
    proof {
        graph::lemma_seq_lists_set_ref(it0.seq(), m.dom());
        assert(m.contains_key(*location));
        lemma_ploc_of(f, *location);
        assert(fview(m, f)(l) is Some);
        lemma_closure_valid(f, true, l);
        lemma_valid_applies(f, location.function_location);
    }
//@ after 0 `let rfl = location.function_location().apply(function).unwrap();`
    proof {
        assert(il::rfl_in(f, rfl) && il::loc_of(rfl) == l);
        lemma_op_of_at(f, rfl);
    }
//@ before 0 `let defs = match rfl {`
    let ghost rdin = rd_in@;
    proof {
        assert(is_rd_in(f, m, l, rdin));
        lemma_rd_in_defs_ok(function, m, l, rdin);
        lemma_len0(rdin);
    }
// ---------------- Instruction arm
//@ before 0 `let mut vf_acc = LocationSet::new(); for scalar_read in vf_it1: vf_reads { let mut defs = vf_acc; vf_acc = { for rd in vf_it2: rd_in.locations().iter() { let vf_rfl`
    let ghost rs = read_list(f, l);
    let ghost reads_v = vf_reads@;
    proof { assert(il::refs_are(reads_v, rs)); }
//@ before 0 `for scalar_read in vf_it1: vf_reads { let mut defs = vf_acc; vf_acc = { for rd in vf_it2: rd_in.locations().iter() { let vf_rfl`
    proof {
        lemma_scan_outer_init(f, rdin, rs, set_pred(vf_acc@));
        lemma_ud_collected(f, m, l, rdin, rs, 0, vf_acc@);
    }
//@ loop 1
    invariant
        vf_it1.seq() == reads_v,
        scan_outer(f, rdin, rs, vf_it1.index@ as int, set_pred(vf_acc@)),
        vf_it1.index@ == vf_it1.seq().len() ==> is_ud_at(f, m, l, vf_acc@),
//@ before 0 `for rd in vf_it2: rd_in.locations().iter() { let vf_rfl`
    let ghost i1 = vf_it1.index@ as int;
    proof {
        assert(*scalar_read == rs[i1]);
        if rdin.len() == 0 { assert(scan_outer(f, rdin, rs, i1 + 1, set_pred(defs@))); }
    }
//@ loop 2
    invariant
        graph::seq_lists_set_ref(vf_it2.seq(), rdin),
        scan_middle(f, rdin, rs, i1, vf_it2.seq(), vf_it2.index@, set_pred(defs@)),
        vf_it2.index@ == vf_it2.seq().len() ==> scan_outer(f, rdin, rs, i1 + 1, set_pred(defs@)),
//@ before 0 `let vf_rfl`
    let ghost n = vf_it2.index@;
    let ghost dk = *rd;
    let ghost ws = write_list(f, kloc(dk));
    proof {
        graph::lemma_seq_lists_set_ref(vf_it2.seq(), rdin);
        assert(rdin.contains(dk));
        assert(is_def_loc(f, dk));
        assert forall|x: il::RefFunctionLocation| #[trigger] il::rfl_points_in(f, x) implies op_of(x) == op_at(f, il::loc_of(x)) by {
            lemma_op_of_at(f, x);
        }
    }
//@ before 0 `for scalar_written in vf_it3: vf_ws {`
    let ghost ws_v = vf_ws@;
    proof {
        assert(il::refs_are(ws_v, ws));
        lemma_scan_inner_init(f, rdin, rs, i1, vf_it2.seq(), n, ws, set_pred(defs@));
        lemma_scan_inner_done(f, rdin, rs, i1, vf_it2.seq(), n, ws, 0, set_pred(defs@));
    }
//@ loop 3
    invariant
        vf_it3.seq() == ws_v,
        scan_inner(f, rdin, rs, i1, vf_it2.seq(), n, ws, vf_it3.index@ as int, set_pred(defs@)),
        vf_it3.index@ == vf_it3.seq().len() ==> scan_middle(f, rdin, rs, i1, vf_it2.seq(), n + 1, set_pred(defs@)),
//@ before 0 `if scalar_written == scalar_read {`
    let ghost j3 = vf_it3.index@ as int;
    let ghost s0 = defs@;
    proof { assert(*scalar_written == ws[j3]); }
//@ before 0 `} } defs }; } vf_acc },`
    proof {
        lemma_ud_inner_step(f, rdin, rs, i1, vf_it2.seq(), n, ws, j3, s0, defs@);
        lemma_scan_inner_done(f, rdin, rs, i1, vf_it2.seq(), n, ws, j3 + 1, set_pred(defs@));
    }
//@ before 0 `} defs }; } vf_acc },`
    proof { lemma_scan_middle_done(f, rdin, rs, i1, vf_it2.seq(), n + 1, set_pred(defs@)); }
//@ before 0 `} vf_acc },`
    proof { lemma_ud_collected(f, m, l, rdin, rs, vf_it1.index@ + 1, vf_acc@); }
// ---------------- Edge arm
//@ before 0 `let vf_cond = edge.condition();`
    proof {
        assert(il::edge_of(f, *edge));
        assert(cond_at(f, l) == edge.condition);
    }
//@ before 1 `let mut vf_acc = LocationSet::new();`
    let ghost rs = read_list(f, l);
    let ghost reads_v = vf_reads@;
    proof { assert(il::refs_are(reads_v, rs)); }
//@ before 1 `for scalar_read in vf_it1: vf_reads {`
    proof {
        lemma_scan_outer_init(f, rdin, rs, set_pred(vf_acc@));
        lemma_ud_collected(f, m, l, rdin, rs, 0, vf_acc@);
    }
//@ loop 4
    invariant
        vf_it1.seq() == reads_v,
        scan_outer(f, rdin, rs, vf_it1.index@ as int, set_pred(vf_acc@)),
        vf_it1.index@ == vf_it1.seq().len() ==> is_ud_at(f, m, l, vf_acc@),
//@ before 1 `for rd in vf_it2: rd_in.locations().iter() {`
    let ghost i1 = vf_it1.index@ as int;
    proof {
        assert(*scalar_read == rs[i1]);
        if rdin.len() == 0 { assert(scan_outer(f, rdin, rs, i1 + 1, set_pred(defs@))); }
    }
//@ loop 5
    invariant
        graph::seq_lists_set_ref(vf_it2.seq(), rdin),
        scan_middle(f, rdin, rs, i1, vf_it2.seq(), vf_it2.index@, set_pred(defs@)),
        vf_it2.index@ == vf_it2.seq().len() ==> scan_outer(f, rdin, rs, i1 + 1, set_pred(defs@)),
//@ before 0 `if let Some(scalars_written) = rd`
    let ghost n = vf_it2.index@;
    let ghost dk = *rd;
    let ghost ws = write_list(f, kloc(dk));
    proof {
        graph::lemma_seq_lists_set_ref(vf_it2.seq(), rdin);
        assert(rdin.contains(dk));
        assert(is_def_loc(f, dk));
        assert forall|x: il::RefFunctionLocation| #[trigger] il::rfl_points_in(f, x) implies op_of(x) == op_at(f, il::loc_of(x)) by {
            lemma_op_of_at(f, x);
        }
        lemma_scan_inner_init(f, rdin, rs, i1, vf_it2.seq(), n, ws, set_pred(defs@));
        lemma_scan_inner_done(f, rdin, rs, i1, vf_it2.seq(), n, ws, 0, set_pred(defs@));
    }
//@ before 0 `for scalar_written in vf_it3: scalars_written {`
    let ghost ws_v = scalars_written@;
    proof { assert(il::refs_are(ws_v, ws)); }
//@ loop 6
    invariant
        vf_it3.seq() == ws_v,
        scan_inner(f, rdin, rs, i1, vf_it2.seq(), n, ws, vf_it3.index@ as int, set_pred(defs@)),
        vf_it3.index@ == vf_it3.seq().len() ==> scan_middle(f, rdin, rs, i1, vf_it2.seq(), n + 1, set_pred(defs@)),
//@ before 1 `if scalar_written == scalar_read {`
    let ghost j3 = vf_it3.index@ as int;
    let ghost s0 = defs@;
    proof { assert(*scalar_written == ws[j3]); }
//@ before 0 `} } } defs }; } vf_acc } } },`
    proof {
        lemma_ud_inner_step(f, rdin, rs, i1, vf_it2.seq(), n, ws, j3, s0, defs@);
        lemma_scan_inner_done(f, rdin, rs, i1, vf_it2.seq(), n, ws, j3 + 1, set_pred(defs@));
    }
//@ before 0 `} defs }; } vf_acc } } },`
    proof { lemma_scan_middle_done(f, rdin, rs, i1, vf_it2.seq(), n + 1, set_pred(defs@)); }
//@ before 0 `} vf_acc } } },`
    proof { lemma_ud_collected(f, m, l, rdin, rs, vf_it1.index@ + 1, vf_acc@); }
// ---------------- the entry is inserted
//@ before 0 `ud.insert(location.clone(), defs);`
    let ghost old_ud = ud@;
    proof {
        assert(is_ud_at(f, m, l, defs@)) by {
            if read_list(f, l).len() == 0 && defs@ == Set::<il::ProgramLocation>::empty() { lemma_ud_nothing_read(f, m, l, defs@); }
        }
    }
//@ after 0 `ud.insert(location.clone(), defs);`
    proof {
        lemma_ud_scan_step(f, m, it0.seq(), it0.index@, old_ud, ud@[*location]);
        lemma_ud_scan_done(f, m, it0.seq(), it0.index@ + 1, ud@);
    }
//@ end
