// ======================================================================================
// units/C12/rd_analysis.rs - `impl FixedPointAnalysis<'r, LocationSet> for ReachingDefinitionsAnalysis<'r>`
// (lib/analysis/reaching_definitions.rs): the lattice laws of unit C09's trait contract discharged for the
// subset lattice, the contracts of `trans` / `join`, `reaching_definitions` = C09's engine contract
// instantiated, and `reaching_definitions_in` (candidate fix 2: the definitions reaching a location BEFORE it
// executes = the union of the reaching definitions of its predecessors).
// Included inside `pub mod reaching_definitions` after rd_spec.rs.
// ======================================================================================

//@ source lib/analysis/reaching_definitions.rs
//@ item struct ReachingDefinitionsAnalysis

/// the state with view `m`
pub open spec fn state_of(m: PLSet) -> LocationSet {
    LocationSet { locations: hashset_of::hashset_of(m) }
}

/// the reference vectors `a` and `b` denote the same list of scalars
pub open spec fn refs_same(a: Seq<&il::Scalar>, b: Seq<&il::Scalar>) -> bool {
    a.len() == b.len() && forall|i: int| 0 <= i < a.len() ==> *(#[trigger] a[i]) == *b[i]
}

pub proof fn lemma_refs_same(a: Seq<&il::Scalar>, sa: Seq<il::Scalar>, b: Seq<&il::Scalar>, sb: Seq<il::Scalar>)
    requires il::refs_are(a, sa), il::refs_are(b, sb),
    ensures refs_same(a, b) <==> sa == sb,
{
    if refs_same(a, b) {
        assert forall|i: int| 0 <= i < sa.len() implies sa[i] == sb[i] by { assert(*a[i] == *b[i]); }
        assert(sa =~= sb);
    }
    if sa == sb {
        assert forall|i: int| 0 <= i < a.len() implies *(#[trigger] a[i]) == *b[i] by { assert(sa[i] == sb[i]); }
    }
}

/// the kill scan: `kill` holds exactly the members among the first `n` listed ones that `l` kills
pub open spec fn kill_scan(f: il::Function, l: Loc, st: PLSet, items: Seq<&il::ProgramLocation>, n: int, kill: Seq<il::ProgramLocation>) -> bool {
    &&& forall|j: int| 0 <= j < kill.len() ==> st.contains(#[trigger] kill[j]) && kills(f, l, kloc(kill[j]))
    &&& forall|i: int| 0 <= i < n && i < items.len() && kills(f, l, kloc(*(#[trigger] items[i]))) ==> kill.contains(*items[i])
}

pub proof fn lemma_kill_scan_step(f: il::Function, l: Loc, st: PLSet, items: Seq<&il::ProgramLocation>, n: int, kill: Seq<il::ProgramLocation>, hit: bool)
    requires
        graph::seq_lists_set_ref(items, st), 0 <= n < items.len(), kill_scan(f, l, st, items, n, kill),
        hit == kills(f, l, kloc(*items[n])),
    ensures kill_scan(f, l, st, items, n + 1, if hit { kill.push(*items[n]) } else { kill }),
{
    graph::lemma_seq_lists_set_ref(items, st);
    let k2 = if hit { kill.push(*items[n]) } else { kill };
    assert forall|j: int| 0 <= j < k2.len() implies st.contains(#[trigger] k2[j]) && kills(f, l, kloc(k2[j])) by {
        if j < kill.len() { assert(k2[j] == kill[j]); }
    }
    assert forall|i: int| 0 <= i < n + 1 && i < items.len() && kills(f, l, kloc(*(#[trigger] items[i]))) implies k2.contains(*items[i]) by {
        if i < n {
            assert(kill.contains(*items[i]));
            let j = choose|j: int| 0 <= j < kill.len() && kill[j] == *items[i];
            assert(k2[j] == *items[i]);
        } else {
            assert(k2[kill.len() as int] == *items[n]);
        }
    }
}

/// the kill scan is complete: `kill` holds exactly the members of `st` that `l` kills
pub open spec fn kill_done(f: il::Function, l: Loc, st: PLSet, kill: Seq<il::ProgramLocation>) -> bool {
    &&& forall|j: int| 0 <= j < kill.len() ==> st.contains(#[trigger] kill[j]) && kills(f, l, kloc(kill[j]))
    &&& forall|k: il::ProgramLocation| st.contains(k) && kills(f, l, kloc(k)) ==> #[trigger] kill.contains(k)
}

pub proof fn lemma_kill_scan_done(f: il::Function, l: Loc, st: PLSet, items: Seq<&il::ProgramLocation>, n: int, kill: Seq<il::ProgramLocation>)
    requires graph::seq_lists_set_ref(items, st), kill_scan(f, l, st, items, n, kill),
    ensures n == items.len() ==> kill_done(f, l, st, kill),
{
    if n != items.len() { return; }
    graph::lemma_seq_lists_set_ref(items, st);
    assert forall|k: il::ProgramLocation| st.contains(k) && kills(f, l, kloc(k)) implies #[trigger] kill.contains(k) by {
        let i = choose|i: int| 0 <= i < items.len() && *(#[trigger] items[i]) == k;
        assert(kill.contains(*items[i]));
    }
}

/// the first `n` members of `kill` have been removed from `st`
pub open spec fn removed_upto(st: PLSet, kill: Seq<il::ProgramLocation>, n: int, cur: PLSet) -> bool {
    forall|k: il::ProgramLocation| #![trigger cur.contains(k)] cur.contains(k) <==> (st.contains(k) && !kill.take(n).contains(k))
}

pub proof fn lemma_removed_step(st: PLSet, kill: Seq<il::ProgramLocation>, n: int, cur: PLSet)
    requires removed_upto(st, kill, n, cur), 0 <= n < kill.len(),
    ensures removed_upto(st, kill, n + 1, cur.remove(kill[n])),
{
    let c2 = cur.remove(kill[n]);
    let t1 = kill.take(n);
    let t2 = kill.take(n + 1);
    assert(t2 =~= t1.push(kill[n]));
    assert forall|k: il::ProgramLocation| #![trigger c2.contains(k)] c2.contains(k) <==> (st.contains(k) && !t2.contains(k)) by {
        if t1.contains(k) {
            let j = choose|j: int| 0 <= j < t1.len() && t1[j] == k;
            assert(t2[j] == k);
        }
        if t2.contains(k) && k != kill[n] {
            let j = choose|j: int| 0 <= j < t2.len() && t2[j] == k;
            assert(t1[j] == k);
        }
        if k == kill[n] { assert(t2[n] == k); }
    }
}

/// after the two loops: the state is the old state without the killed members
pub proof fn lemma_kill_result(f: il::Function, l: Loc, st: PLSet, kill: Seq<il::ProgramLocation>, n: int, cur: PLSet)
    requires kill_done(f, l, st, kill), removed_upto(st, kill, n, cur),
    ensures n == kill.len() ==> cur == st.filter(|k: il::ProgramLocation| !kills(f, l, kloc(k))),
{
    if n != kill.len() { return; }
    assert(kill.take(n) =~= kill);
    let g = st.filter(|k: il::ProgramLocation| !kills(f, l, kloc(k)));
    assert forall|k: il::ProgramLocation| cur.contains(k) <==> g.contains(k) by {
        if kill.contains(k) {
            let j = choose|j: int| 0 <= j < kill.len() && kill[j] == k;
            assert(kills(f, l, kloc(kill[j])));
        }
    }
    assert(cur =~= g);
}

/// a listing of `b` scanned up to `n` while inserting into `a0`
pub open spec fn union_scan(a0: PLSet, items: Seq<&il::ProgramLocation>, n: int, cur: PLSet) -> bool {
    forall|k: il::ProgramLocation| #![trigger cur.contains(k)] cur.contains(k) <==>
        (a0.contains(k) || exists|i: int| 0 <= i < n && i < items.len() && *(#[trigger] items[i]) == k)
}

pub proof fn lemma_union_scan_step(a0: PLSet, items: Seq<&il::ProgramLocation>, n: int, cur: PLSet)
    requires union_scan(a0, items, n, cur), 0 <= n < items.len(),
    ensures union_scan(a0, items, n + 1, cur.insert(*items[n])),
{
    let c2 = cur.insert(*items[n]);
    assert forall|k: il::ProgramLocation| #![trigger c2.contains(k)] c2.contains(k) <==>
        (a0.contains(k) || exists|i: int| 0 <= i < n + 1 && i < items.len() && *(#[trigger] items[i]) == k) by {
        if cur.contains(k) && !a0.contains(k) {
            let i = choose|i: int| 0 <= i < n && i < items.len() && *(#[trigger] items[i]) == k;
            assert(0 <= i < n + 1 && *items[i] == k);
        }
        if k == *items[n] { assert(0 <= n < n + 1 && *items[n] == k); }
    }
}

pub proof fn lemma_union_scan_done(a0: PLSet, b: PLSet, items: Seq<&il::ProgramLocation>, n: int, cur: PLSet)
    requires graph::seq_lists_set_ref(items, b), union_scan(a0, items, n, cur),
    ensures n == items.len() ==> cur == a0.union(b),
{
    if n != items.len() { return; }
    graph::lemma_seq_lists_set_ref(items, b);
    assert forall|k: il::ProgramLocation| cur.contains(k) <==> (a0.contains(k) || b.contains(k)) by {
        if b.contains(k) {
            let i = choose|i: int| 0 <= i < items.len() && *(#[trigger] items[i]) == k;
            assert(0 <= i < n && *items[i] == k);
        }
        if cur.contains(k) && !a0.contains(k) {
            let i = choose|i: int| 0 <= i < n && i < items.len() && *(#[trigger] items[i]) == k;
            assert(b.contains(*items[i]));
        }
    }
    assert(cur =~= a0.union(b));
}

pub proof fn lemma_len0(s: PLSet)
    ensures s.len() == 0 ==> s == Set::<il::ProgramLocation>::empty(),
{
    if s.len() == 0 { s.lemma_len0_is_empty(); assert(s =~= Set::<il::ProgramLocation>::empty()); }
}

impl<'r> fixed_point::FixedPointAnalysis<'r, LocationSet> for ReachingDefinitionsAnalysis<'r> {
    /// the analysis value is set up for function f
    open spec fn an_inv(&self, f: il::Function) -> bool { *self.function == f }
    /// every member of a state is an instruction location of the analysed function
    open spec fn st_inv(&self, s: LocationSet) -> bool { defs_ok(*self.function, s@) }
    /// THE ORDER: inclusion
    open spec fn le(&self, a: LocationSet, b: LocationSet) -> bool { a@.subset_of(b@) }
    open spec fn trans_spec(&self, f: il::Function, l: Loc, s: Option<LocationSet>) -> LocationSet {
        state_of(trans_view(f, l, in_view(s)))
    }
    /// `trans` never fails
    open spec fn trans_err(&self, f: il::Function, l: Loc, s: Option<LocationSet>, e: Error) -> bool { false }
    /// JOIN = union
    open spec fn join_spec(&self, a: LocationSet, b: LocationSet) -> LocationSet { state_of(a@.union(b@)) }
    /// `partial_cmp == Some(Equal)` means the same set (LocationSet::partial_cmp is the subset order)
    open spec fn cmp_exact(&self) -> bool { true }
    /// gen/kill transfer functions are monotone; the empty in-state at the entry is below every state
    open spec fn monotone(&self, f: il::Function, fwd: bool) -> bool { true }

    proof fn law_partial_cmp() {}
    proof fn law_clone(&self, a: LocationSet, b: LocationSet) {}
    proof fn law_le_refl(&self, a: LocationSet) {}
    proof fn law_le_trans(&self, a: LocationSet, b: LocationSet, c: LocationSet) {}
    proof fn law_join_inv(&self, a: LocationSet, b: LocationSet) {
        broadcast use hashset_of::axiom_hashset_of;
    }
    proof fn law_join_ub(&self, a: LocationSet, b: LocationSet) {
        broadcast use hashset_of::axiom_hashset_of;
    }
    proof fn law_join_least(&self, a: LocationSet, b: LocationSet, c: LocationSet) {
        broadcast use hashset_of::axiom_hashset_of;
    }
    proof fn law_trans_inv(&self, f: il::Function, fwd: bool, l: Loc, s: Option<LocationSet>) {
        broadcast use hashset_of::axiom_hashset_of;
        lemma_closure_valid(f, fwd, l);
        lemma_trans_view_ok(f, l, in_view(s));
    }
    proof fn law_trans_cong(&self, f: il::Function, fwd: bool, l: Loc, s1: LocationSet, s2: LocationSet) {
        broadcast use hashset_of::axiom_hashset_of;
        lemma_trans_view_mono(f, l, s1@, s2@);
    }
    proof fn law_cmp_exact(&self, new: LocationSet, old: LocationSet) {}
    proof fn law_trans_mono(&self, f: il::Function, fwd: bool, l: Loc, s1: Option<LocationSet>, s2: Option<LocationSet>) {
        broadcast use hashset_of::axiom_hashset_of;
        lemma_trans_view_mono(f, l, in_view(s1), in_view(s2));
    }
    proof fn law_cmp_equal(&self, f: il::Function, fwd: bool, new: LocationSet, old: LocationSet) {}
    proof fn law_cmp_ascending(&self, f: il::Function, fwd: bool, new: LocationSet, old: LocationSet) {
        if new@ != old@ && new@.subset_of(old@) { assert(new@ =~= old@); }
    }

//@ fn impl<'r> fixed_point::FixedPointAnalysis<'r, LocationSet> for ReachingDefinitionsAnalysis<'r> :: fn trans nopub loops=2
//@ rewrite 1 `});` => `}` ## R-opt-for-each: part 2 of 2 (the `})` that closed `for_each(|scalar_written| {` becomes the brace that closes the `if let`)
//@ rewrite 1 `instruction .operation() .scalars_written() .into_iter() .for_each(|scalar_written| {` => `if let Some(scalar_written) = instruction.operation().scalars_written() {` ## R-opt-for-each: `OPT.into_iter().for_each(|x| BODY)` - an Option iterates over its payload once if it is Some and not at all if it is None - is by definition `if let Some(x) = OPT { BODY }` (part 1 of 2; OPT and BODY stay the original tokens)
//@ rewrite 1 `let kill: Vec<il::ProgramLocation> = state .locations() .iter() .filter(|location| {` => `let mut kill: Vec<il::ProgramLocation> = Vec::new(); for location in vf_it: state.locations().iter() { if (match` ## R-filter-collect: `let v: Vec<T> = ITER.filter(|x| { P }).cloned().collect();` is by definition `let mut v = Vec::new(); for x in ITER { if P { v.push(x.clone()); } }` (part 1 of 3; ITER and P stay the original tokens)
//@ rewrite 1 `.into_iter() .any(|scalar|` => `{ None => false, Some(scalar) =>` ## R-opt-any: `OPT.into_iter().any(|x| Q)` is by definition `match OPT { None => false, Some(x) => Q }` (Q stays the original tokens; part 2 of 3)
//@ rewrite 1 `) }) .cloned() .collect();` => `}) { kill.push(location.clone()); } }` ## R-filter-collect: part 3 of 3 (closes the match, pushes a clone of every item that satisfies the predicate, closes the loop)
//@ rewrite 1 `kill.iter().for_each(|location| state.remove(location));` => `for location in vf_it2: kill.iter() { state.remove(location); }` ## R-for-each: `ITER.for_each(|x| BODY)` is by definition `for x in ITER { BODY; }`
//@ spec
    ensures
        /*@exact*/ r matches Ok(s) && s@ == trans_view(*location.function, location.loc(), in_view(state)),
//@ enter
    broadcast use hashset_of::axiom_hashset_of;
    let ghost f = *location.function;
    let ghost l = location.loc();
    let ghost m0 = in_view(state);
    proof {
        il::lemma_rfl_in_valid(f, location.function_location);
        lemma_op_of_at(f, location.function_location);
        lemma_trans_view_ok(f, l, m0);
        assert forall|rfl: il::RefFunctionLocation| #[trigger] il::rfl_points_in(f, rfl) implies op_of(rfl) == op_at(f, il::loc_of(rfl)) by {
            lemma_op_of_at(f, rfl);
        }
    }
//@ before 0 `let mut kill`
    let ghost wl = written_at(f, l).unwrap();
    proof {
        assert(il::refs_are(scalar_written@, wl));
        lemma_len0(m0);
    }
//@ loop 0
    invariant
        f == *self.function, f.function_wf(),
        state@ == m0, defs_ok(f, m0),
        written_at(f, l) == Some(wl), il::refs_are(scalar_written@, wl),
        forall|rfl: il::RefFunctionLocation| #[trigger] il::rfl_points_in(f, rfl) ==> op_of(rfl) == op_at(f, il::loc_of(rfl)),
        graph::seq_lists_set_ref(vf_it.seq(), m0),
        kill_scan(f, l, m0, vf_it.seq(), vf_it.index@, kill@),
        vf_it.index@ == vf_it.seq().len() ==> kill_done(f, l, m0, kill@),
//@ before 0 `if (match`
    let ghost kill0 = kill@;
    proof {
        graph::lemma_seq_lists_set_ref(vf_it.seq(), m0);
        assert(m0.contains(*location));
        assert(is_def_loc(f, *location));
        assert forall|v: Seq<&il::Scalar>, s: Seq<il::Scalar>| #[trigger] il::refs_are(v, s) implies (refs_same(v, scalar_written@) <==> s == wl) by {
            lemma_refs_same(v, s, scalar_written@, wl);
        }
    }
//@ after 0 `kill.push(location.clone()); }`
    proof {
        lemma_kill_scan_step(f, l, m0, vf_it.seq(), vf_it.index@, kill0, kill@.len() > kill0.len());
        lemma_kill_scan_done(f, l, m0, vf_it.seq(), vf_it.index@ + 1, kill@);
    }
//@ before 0 `for location in vf_it2`
    proof {
        assert(kill@.take(0) =~= Seq::<il::ProgramLocation>::empty());
        lemma_kill_result(f, l, m0, kill@, 0, state@);
    }
//@ loop 1
    invariant
        kill_done(f, l, m0, kill@),
        vf_it2.seq().len() == kill@.len(),
        forall|j: int| 0 <= j < kill@.len() ==> *(#[trigger] vf_it2.seq()[j]) == kill@[j],
        removed_upto(m0, kill@, vf_it2.index@ as int, state@),
        vf_it2.index@ == vf_it2.seq().len() ==> state@ == m0.filter(|k: il::ProgramLocation| !kills(f, l, kloc(k))),
//@ before 0 `state.remove(location); }`
    let ghost cur0 = state@;
//@ after 0 `state.remove(location);`
    proof {
        lemma_removed_step(m0, kill@, vf_it2.index@ as int, cur0);
        lemma_kill_result(f, l, m0, kill@, vf_it2.index@ + 1, state@);
    }
//@ end

//@ fn impl<'r> fixed_point::FixedPointAnalysis<'r, LocationSet> for ReachingDefinitionsAnalysis<'r> :: fn join nopub loops=1
//@ rewrite 1 `));` => `); }` ## R-for-each: part 2 of 2 (the parenthesis that closed `for_each(` becomes the brace that closes the loop body)
//@ rewrite 1 `state1 .locations() .iter() .for_each(|location|` => `for location in vf_it: state1.locations().iter() {` ## R-for-each: `ITER.for_each(|x| BODY)` is by definition `for x in ITER { BODY; }` (part 1 of 2; ITER and BODY stay the original tokens)
//@ spec
    ensures /*@union*/ r matches Ok(s) && s@ == state0@.union(state1@),
//@ enter
    broadcast use hashset_of::axiom_hashset_of;
    let ghost a0 = state0@;
    let ghost b0 = state1@;
    proof { lemma_len0(b0); assert(a0.union(Set::<il::ProgramLocation>::empty()) =~= a0); }
//@ loop 0
    invariant
        b0 == state1@,
        graph::seq_lists_set_ref(vf_it.seq(), b0),
        union_scan(a0, vf_it.seq(), vf_it.index@, state0@),
        vf_it.index@ == vf_it.seq().len() ==> state0@ == a0.union(b0),
//@ before 0 `state0.insert(location.clone()); }`
    let ghost cur0 = state0@;
//@ after 0 `state0.insert(location.clone());`
    proof {
        lemma_union_scan_step(a0, vf_it.seq(), vf_it.index@, cur0);
        lemma_union_scan_done(a0, b0, vf_it.seq(), vf_it.index@ + 1, state0@);
    }
//@ end
}

// ---------------------------------------------------------------------------------------------
// the solver's contract instantiated

/// the analysis value `reaching_definitions` builds for `f`
pub open spec fn rda_of<'a>(f: &'a il::Function) -> ReachingDefinitionsAnalysis<'a> {
    ReachingDefinitionsAnalysis { function: f }
}

/// WHAT `reaching_definitions` RETURNS (C09's engine contract at this analysis; f must be the referent of `fr`):
/// a map keyed by exactly the locations reachable from the entry location (forward closure under `succ`), whose
/// states are sets of instruction locations of f, which solves the data-flow equations
///     RD[l] = trans_view(l, union of RD[p] over the predecessors p of l that are keys)
/// and is the LEAST such map (pointwise below every post-fixpoint).
pub open spec fn is_rd_solution(fr: &il::Function, m: Map<il::ProgramLocation, LocationSet>) -> bool {
    let f = *fr;
    let a = rda_of(fr);
    &&& fkeys_ok(m, f)
    &&& solution_domain(f, true, fview(m, f))
    &&& lm_inv(&a, fview(m, f))
    &&& solution_eqs(&a, f, true, fview(m, f))
    &&& solution_least(&a, f, true, fview(m, f))
}

//@ fn fn reaching_definitions
//@ spec
    requires function.function_wf(),
    ensures
        /*@no_entry*/ function.control_flow_graph.entry is None ==> r == Err::<HashMap<il::ProgramLocation, LocationSet>, Error>(Error::FixedPointRequiresEntry),
        /*@solution*/ r matches Ok(m) ==> is_rd_solution(function, m@),
        /*@errors*/ r matches Err(e) ==> (function.control_flow_graph.entry is None && e == Error::FixedPointRequiresEntry)
            || (il::entry_loc(*function) is Some && e == Error::FixedPointMaxSteps),
//@ end

// ---------------------------------------------------------------------------------------------
// the definitions reaching a location BEFORE it executes (candidate fix 2)

/// `s` is the union of the states of the predecessors of `l` that have one
pub open spec fn is_rd_in(f: il::Function, m: Map<il::ProgramLocation, LocationSet>, l: Loc, s: PLSet) -> bool {
    forall|k: il::ProgramLocation| #![trigger s.contains(k)] s.contains(k) <==>
        exists|p: Loc| il::pred(f, l, p) && #[trigger] m.contains_key(ploc(f, p)) && m[ploc(f, p)]@.contains(k)
}

/// the scan of the predecessor list: `s` is the union of the states of the first `n` listed predecessors
pub open spec fn rd_in_scan(f: il::Function, m: Map<il::ProgramLocation, LocationSet>, ps: Seq<il::RefProgramLocation>, n: int, s: PLSet) -> bool {
    forall|k: il::ProgramLocation| #![trigger s.contains(k)] s.contains(k) <==>
        exists|i: int| 0 <= i < n && i < ps.len() && #[trigger] m.contains_key(ploc(f, ps[i].loc())) && m[ploc(f, ps[i].loc())]@.contains(k)
}

pub proof fn lemma_rd_in_skip(f: il::Function, m: Map<il::ProgramLocation, LocationSet>, ps: Seq<il::RefProgramLocation>, n: int, s: PLSet)
    requires rd_in_scan(f, m, ps, n, s), 0 <= n < ps.len(), !m.contains_key(ploc(f, ps[n].loc())),
    ensures rd_in_scan(f, m, ps, n + 1, s),
{
    assert forall|k: il::ProgramLocation| #![trigger s.contains(k)] s.contains(k) <==>
        exists|i: int| 0 <= i < n + 1 && i < ps.len() && #[trigger] m.contains_key(ploc(f, ps[i].loc())) && m[ploc(f, ps[i].loc())]@.contains(k) by {
        if s.contains(k) {
            let i = choose|i: int| 0 <= i < n && i < ps.len() && #[trigger] m.contains_key(ploc(f, ps[i].loc())) && m[ploc(f, ps[i].loc())]@.contains(k);
            assert(0 <= i < n + 1 && m.contains_key(ploc(f, ps[i].loc())));
        }
    }
}

pub proof fn lemma_rd_in_add(f: il::Function, m: Map<il::ProgramLocation, LocationSet>, ps: Seq<il::RefProgramLocation>, n: int, s: PLSet, s2: PLSet)
    requires
        rd_in_scan(f, m, ps, n, s), 0 <= n < ps.len(), m.contains_key(ploc(f, ps[n].loc())),
        s2 == s.union(m[ploc(f, ps[n].loc())]@),
    ensures rd_in_scan(f, m, ps, n + 1, s2),
{
    assert forall|k: il::ProgramLocation| #![trigger s2.contains(k)] s2.contains(k) <==>
        exists|i: int| 0 <= i < n + 1 && i < ps.len() && #[trigger] m.contains_key(ploc(f, ps[i].loc())) && m[ploc(f, ps[i].loc())]@.contains(k) by {
        if s.contains(k) {
            let i = choose|i: int| 0 <= i < n && i < ps.len() && #[trigger] m.contains_key(ploc(f, ps[i].loc())) && m[ploc(f, ps[i].loc())]@.contains(k);
            assert(0 <= i < n + 1 && m.contains_key(ploc(f, ps[i].loc())));
        }
        if m[ploc(f, ps[n].loc())]@.contains(k) {
            assert(0 <= n < n + 1 && m.contains_key(ploc(f, ps[n].loc())));
        }
    }
}

pub proof fn lemma_rd_in_done(f: il::Function, m: Map<il::ProgramLocation, LocationSet>, l: Loc, ps: Seq<il::RefProgramLocation>, s: PLSet)
    requires rd_in_scan(f, m, ps, ps.len() as int, s), il::lists_rpls(ps, f, |l2: Loc| il::pred(f, l, l2)),
    ensures is_rd_in(f, m, l, s),
{
    let sel = |l2: Loc| il::pred(f, l, l2);
    assert forall|k: il::ProgramLocation| #![trigger s.contains(k)] s.contains(k) <==>
        exists|p: Loc| il::pred(f, l, p) && #[trigger] m.contains_key(ploc(f, p)) && m[ploc(f, p)]@.contains(k) by {
        if s.contains(k) {
            let i = choose|i: int| 0 <= i < ps.len() && #[trigger] m.contains_key(ploc(f, ps[i].loc())) && m[ploc(f, ps[i].loc())]@.contains(k);
            assert(sel(il::loc_of(ps[i].function_location)));
            let p = ps[i].loc();
            assert(il::pred(f, l, p) && m.contains_key(ploc(f, p)));
        }
        if exists|p: Loc| il::pred(f, l, p) && #[trigger] m.contains_key(ploc(f, p)) && m[ploc(f, p)]@.contains(k) {
            let p = choose|p: Loc| il::pred(f, l, p) && #[trigger] m.contains_key(ploc(f, p)) && m[ploc(f, p)]@.contains(k);
            assert(sel(p));
            let i = choose|i: int| 0 <= i < ps.len() && il::loc_of((#[trigger] ps[i]).function_location) == p;
            assert(ps[i].loc() == p);
            assert(0 <= i < ps.len() && m.contains_key(ploc(f, ps[i].loc())));
        }
    }
}

//@ fn fn reaching_definitions_in loops=2
//@ rewrite 1 `for predecessor in location.backward()? {` => `let vf_preds = location.backward()?; for predecessor in vf_it: vf_preds {` ## R-let-iter: binds the iterated vector to a name before the loop and names the ghost iterator, so that invariants can mention them; evaluation order and the `?` are unchanged
//@ rewrite 1 `for definition in state.locations() {` => `for definition in vf_it2: state.locations() {` ## R-ghost-iter-name: names the ghost iterator of the for loop so that invariants can mention it; no executable change
//@ spec
    requires location.rpl_wf(),
    ensures
        /*@union_of_preds*/ r matches Ok(s) && is_rd_in(*location.function, rd@, location.loc(), s@),
//@ enter
    let ghost f = *location.function;
    let ghost l = location.loc();
//@ before 0 `for predecessor in vf_it`
    let ghost ps = vf_preds@;
//@ loop 0
    invariant
        vf_it.seq() == ps,
        il::lists_rpls(ps, f, |l2: Loc| il::pred(f, l, l2)),
        rd_in_scan(f, rd@, ps, vf_it.index@ as int, defs@),
//@ before 0 `if let Some(state)`
    let ghost n = vf_it.index@ as int;
    let ghost s0 = defs@;
    let ghost pl = predecessor.loc();
    proof {
        assert(*predecessor.function == f);
        
    }
//@ before 0 `for definition in vf_it2`
    let ghost st = state@;
    proof {
        assert(rd@.contains_key(ploc(f, pl)) && rd@[ploc(f, pl)] == *state);
        lemma_len0(st);
        assert(s0.union(Set::<il::ProgramLocation>::empty()) =~= s0);
    }
//@ loop 1
    invariant
        graph::seq_lists_set_ref(vf_it2.seq(), st),
        union_scan(s0, vf_it2.seq(), vf_it2.index@, defs@),
        vf_it2.index@ == vf_it2.seq().len() ==> defs@ == s0.union(st),
//@ before 0 `defs.insert(definition.clone()); }`
    let ghost cur0 = defs@;
//@ after 0 `defs.insert(definition.clone());`
    proof {
        lemma_union_scan_step(s0, vf_it2.seq(), vf_it2.index@, cur0);
        lemma_union_scan_done(s0, st, vf_it2.seq(), vf_it2.index@ + 1, defs@);
    }
//@ after 0 `defs.insert(definition.clone()); } }`
    proof {
        if rd@.contains_key(ploc(f, pl)) {
            lemma_rd_in_add(f, rd@, ps, n, s0, defs@);
        } else {
            lemma_rd_in_skip(f, rd@, ps, n, s0);
        }
    }
//@ before 0 `Ok(defs)`
    proof { lemma_rd_in_done(f, rd@, l, ps, defs@); }
//@ end
